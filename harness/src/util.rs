use scratchstack_aws_signature::{errors::ServiceError, SignatureError};
use serde_json::{json, Map, Value};
use std::cell::RefCell;
use std::panic::{catch_unwind, AssertUnwindSafe};

thread_local! {
    static LAST_PANIC: RefCell<String> = const { RefCell::new(String::new()) };
}

/// Panics in the code under test are data: keep them quiet and remember message + location.
pub fn quiet_panics() {
    std::panic::set_hook(Box::new(|info| {
        let msg = if let Some(s) = info.payload().downcast_ref::<&str>() {
            s.to_string()
        } else if let Some(s) = info.payload().downcast_ref::<String>() {
            s.clone()
        } else {
            "<non-string panic>".to_string()
        };
        let loc = info.location().map(|l| format!("{}:{}", l.file(), l.line())).unwrap_or_default();
        LAST_PANIC.with(|p| *p.borrow_mut() = format!("{msg} @ {loc}"));
    }));
}

pub fn last_panic() -> String {
    LAST_PANIC.with(|p| p.borrow().clone())
}

/// Run `f`, turning an unwinding panic into Err(message).
pub fn guarded<T>(f: impl FnOnce() -> T) -> Result<T, String> {
    match catch_unwind(AssertUnwindSafe(f)) {
        Ok(v) => Ok(v),
        Err(_) => Err(last_panic()),
    }
}

pub fn bytes_of(v: &Value) -> Vec<u8> {
    match v {
        Value::Array(a) => a.iter().map(|x| x.as_u64().unwrap_or(0) as u8).collect(),
        Value::String(s) => s.as_bytes().to_vec(),
        _ => Vec::new(),
    }
}

pub fn jbytes(b: &[u8]) -> Value {
    Value::Array(b.iter().map(|x| json!(*x)).collect())
}

pub fn get_bytes(case: &Value, k: &str) -> Vec<u8> {
    case.get(k).map(bytes_of).unwrap_or_default()
}

pub fn get_bool(case: &Value, k: &str) -> bool {
    case.get(k).and_then(|v| v.as_bool()).unwrap_or(false)
}

pub fn get_i64(case: &Value, k: &str) -> i64 {
    case.get(k).and_then(|v| v.as_i64()).unwrap_or(0)
}

pub fn get_str<'a>(case: &'a Value, k: &str) -> &'a str {
    case.get(k).and_then(|v| v.as_str()).unwrap_or("")
}

pub fn kind_of(e: &SignatureError) -> &'static str {
    match e {
        SignatureError::ExpiredToken(_) => "ExpiredToken",
        SignatureError::IO(_) => "IO",
        SignatureError::InternalServiceError(_) => "InternalServiceError",
        SignatureError::InvalidBodyEncoding(_) => "InvalidBodyEncoding",
        SignatureError::InvalidClientTokenId(_) => "InvalidClientTokenId",
        SignatureError::InvalidContentType(_) => "InvalidContentType",
        SignatureError::InvalidRequestMethod(_) => "InvalidRequestMethod",
        SignatureError::IncompleteSignature(_) => "IncompleteSignature",
        SignatureError::InvalidURIPath(_) => "InvalidURIPath",
        SignatureError::MalformedQueryString(_) => "MalformedQueryString",
        SignatureError::MissingAuthenticationToken(_) => "MissingAuthenticationToken",
        SignatureError::SignatureDoesNotMatch(_) => "SignatureDoesNotMatch",
        _ => "Unknown",
    }
}

/// Every event carries the same result columns so the TLA+ side never touches a missing field.
pub fn res_ok(m: &mut Map<String, Value>, out: &[u8]) {
    m.insert("res".into(), json!("ok"));
    m.insert("out".into(), jbytes(out));
    m.insert("kind".into(), json!(""));
    m.insert("code".into(), json!(""));
    m.insert("status".into(), json!(0));
    m.insert("msg".into(), json!(""));
}

pub fn res_err(m: &mut Map<String, Value>, e: &SignatureError) {
    // error_code / http_status / Display are code under test too
    let probe = guarded(|| (ServiceError::error_code(e).to_string(), ServiceError::http_status(e).as_u16(), e.to_string()));
    if let Err(p) = probe {
        return res_other(m, "panic", &p);
    }
    m.insert("res".into(), json!("err"));
    m.insert("out".into(), json!([]));
    m.insert("kind".into(), json!(kind_of(e)));
    m.insert("code".into(), json!(ServiceError::error_code(e)));
    m.insert("status".into(), json!(ServiceError::http_status(e).as_u16()));
    m.insert("msg".into(), json!(ascii_only(&e.to_string())));
}

/// messages are kept ASCII so that no line-oriented tool ever splits a trace line inside a string
pub fn ascii_only(s: &str) -> String {
    s.chars().map(|c| if (c as u32) >= 0x20 && (c as u32) < 0x7f { c } else { '?' }).collect()
}

pub fn res_other(m: &mut Map<String, Value>, res: &str, msg: &str) {
    let msg = &ascii_only(msg);
    m.insert("res".into(), json!(res));
    m.insert("out".into(), json!([]));
    m.insert("kind".into(), json!(""));
    m.insert("code".into(), json!(""));
    m.insert("status".into(), json!(0));
    m.insert("msg".into(), json!(msg));
}

/// splitmix64 / xorshift PRNG: deterministic from VERIF_SEED, no external crate.
pub struct Rng(u64);

impl Rng {
    pub fn new(seed: u64) -> Self {
        Rng(seed.wrapping_mul(0x9E3779B97F4A7C15).wrapping_add(0xD1B54A32D192ED03) | 1)
    }
    pub fn next(&mut self) -> u64 {
        self.0 = self.0.wrapping_add(0x9E3779B97F4A7C15);
        let mut z = self.0;
        z = (z ^ (z >> 30)).wrapping_mul(0xBF58476D1CE4E5B9);
        z = (z ^ (z >> 27)).wrapping_mul(0x94D049BB133111EB);
        z ^ (z >> 31)
    }
    pub fn below(&mut self, n: usize) -> usize {
        if n == 0 {
            0
        } else {
            (self.next() % n as u64) as usize
        }
    }
    pub fn chance(&mut self, num: usize, den: usize) -> bool {
        self.below(den) < num
    }
    pub fn pick<'a, T>(&mut self, xs: &'a [T]) -> &'a T {
        &xs[self.below(xs.len())]
    }
}
