//! C07: instruction-address traces of one validation, recorded by single-stepping a forked child
//! under ptrace. Only instruction addresses inside this executable's text mapping are counted
//! (vdso / libc / ld.so are excluded); the binary supplies byte-wise early-exit memcmp/bcmp so the
//! verdict does not depend on the C library's vector width.

use crate::req::*;
use crate::util::*;
use serde_json::{json, Value};
use std::io::{BufRead, Write};

#[no_mangle]
#[inline(never)]
pub unsafe extern "C" fn memcmp(a: *const u8, b: *const u8, n: usize) -> i32 {
    let mut i = 0usize;
    while i < n {
        let x = core::ptr::read_volatile(a.add(i));
        let y = core::ptr::read_volatile(b.add(i));
        if x != y {
            return x as i32 - y as i32;
        }
        i += 1;
    }
    0
}

#[no_mangle]
#[inline(never)]
pub unsafe extern "C" fn bcmp(a: *const u8, b: *const u8, n: usize) -> i32 {
    let mut i = 0usize;
    while i < n {
        let x = core::ptr::read_volatile(a.add(i));
        let y = core::ptr::read_volatile(b.add(i));
        if x != y {
            return 1;
        }
        i += 1;
    }
    0
}

/// [lo, hi) of the executable (r-x) mappings of this binary
fn text_ranges() -> Vec<(u64, u64)> {
    let exe = std::fs::read_link("/proc/self/exe").map(|p| p.to_string_lossy().to_string()).unwrap_or_default();
    let maps = std::fs::read_to_string("/proc/self/maps").unwrap_or_default();
    let mut v = Vec::new();
    for l in maps.lines() {
        let f: Vec<&str> = l.split_whitespace().collect();
        if f.len() >= 6 && f[1].contains('x') && f[5] == exe {
            let (a, b) = f[0].split_once('-').unwrap();
            v.push((u64::from_str_radix(a, 16).unwrap(), u64::from_str_radix(b, 16).unwrap()));
        }
    }
    v
}

fn trace_one(case: &Value, ranges: &[(u64, u64)]) -> Result<(u64, u64, String), String> {
    unsafe {
        let pid = libc::fork();
        if pid < 0 {
            return Err("fork failed".into());
        }
        if pid == 0 {
            // child: be traced; build everything first; stop; then ONLY the validation call is traced
            libc::ptrace(libc::PTRACE_TRACEME, 0, 0, 0);
            let cfg = case.get("cfg").cloned().unwrap_or(json!({}));
            let script = Script::from_json(case.get("script").unwrap_or(&json!({})));
            let mut oracle = Oracle {
                sha: Vec::new(),
                sig: Vec::new(),
            };
            let built = build(case, &mut oracle);
            let req = match built.request() {
                Ok(r) => r,
                Err(_) => libc::_exit(13),
            };
            let region = String::from_utf8_lossy(&get_bytes(&cfg, "region")).to_string();
            let service = String::from_utf8_lossy(&get_bytes(&cfg, "service")).to_string();
            let now = now_of(&cfg);
            let opts = options_of(&cfg);
            let none: [std::borrow::Cow<'static, str>; 0] = [];
            let reqs = scratchstack_aws_signature::SliceSignedHeaderRequirements::new(&none, &none, &none);
            let mut provider = Provider {
                script: script.clone(),
                ready_left: script.ready_in,
                events: std::sync::Arc::new(std::sync::Mutex::new(Vec::with_capacity(8))),
            };
            if get_bool(case, "tracelog") {
                // a logger enabled at Trace level: lazily evaluated log arguments are now evaluated
                crate::leak::start();
            }
            libc::raise(libc::SIGSTOP);
            let out = block_on(scratchstack_aws_signature::sigv4_validate_request(
                req, &region, &service, &mut provider, now, &reqs, opts,
            ));
            let code = match out {
                Some(Ok(_)) => 10,
                Some(Err(_)) => 11,
                None => 12,
            };
            libc::_exit(code);
        }
        let mut status: i32 = 0;
        libc::waitpid(pid, &mut status, 0);
        if !libc::WIFSTOPPED(status) {
            return Err("child did not stop".into());
        }
        let mut steps: u64 = 0;
        let image_base: u64 = ranges.iter().map(|r| r.0).min().unwrap_or(0);
        let mut digest: u64 = 0xcbf29ce484222325;
        let mut regs: libc::user_regs_struct = std::mem::zeroed();
        let mut total: u64 = 0;
        loop {
            if libc::ptrace(libc::PTRACE_SINGLESTEP, pid, 0, 0) < 0 {
                return Err("singlestep failed".into());
            }
            libc::waitpid(pid, &mut status, 0);
            if libc::WIFEXITED(status) {
                let code = libc::WEXITSTATUS(status);
                let res = match code {
                    10 => "ok",
                    11 => "err",
                    12 => "panic",
                    _ => "other",
                };
                return Ok((steps, digest, res.to_string()));
            }
            if libc::WIFSIGNALED(status) {
                return Err("child killed by signal".into());
            }
            total += 1;
            if total > 200_000_000 {
                libc::kill(pid, libc::SIGKILL);
                return Err("too many steps".into());
            }
            if libc::ptrace(libc::PTRACE_GETREGS, pid, 0, &mut regs as *mut _ as *mut libc::c_void) < 0 {
                return Err("getregs failed".into());
            }
            let rip = regs.rip;
            if ranges.iter().any(|(a, b)| rip >= *a && rip < *b) {
                steps += 1;
                // offsets from the image base, not absolute addresses: tracer processes are separate executions of a
                // position-independent executable and are loaded at different addresses
                digest = (digest ^ (rip - image_base)).wrapping_mul(0x100000001b3);
            }
        }
    }
}

/// `conform ctrace <cases> <out>`: every case is traced; a case is re-traced (up to 3 times) when
/// its digest differs from the first case of its group, and only a difference that reproduces every
/// time is reported as such (an interrupt does not reproduce, a data dependence does).
pub fn main(cases_path: &str, out_path: &str) {
    let f = std::fs::File::open(cases_path).expect("open cases");
    let cases: Vec<Value> = std::io::BufReader::new(f)
        .lines()
        .filter_map(|l| l.ok())
        .filter(|l| !l.trim().is_empty())
        .map(|l| serde_json::from_str(&l).expect("case"))
        .collect();
    if cases.is_empty() {
        return;
    }
    // warm up: lazily initialised statics, thread-local hash seeds, allocator arenas
    for _ in 0..2 {
        let _ = run_e2e_only(&cases[0]);
    }
    let ranges = text_ranges();
    if ranges.is_empty() {
        eprintln!("no text mapping found");
        std::process::exit(2);
    }
    let mut w = std::io::BufWriter::new(std::fs::File::create(out_path).expect("create"));
    let mut base: std::collections::HashMap<String, (u64, u64)> = std::collections::HashMap::new();
    for c in &cases {
        let group = serde_json::to_string(c.get("group").unwrap_or(&json!(0))).unwrap();
        let mut obs = trace_one(c, &ranges);
        if let (Ok((s, d, _)), Some((bs, bd))) = (&obs, base.get(&group)) {
            if (*s, *d) != (*bs, *bd) {
                // reproduce or discard
                let mut same = true;
                for _ in 0..3 {
                    let again = trace_one(c, &ranges);
                    match (&again, &obs) {
                        (Ok((s2, d2, _)), Ok((s1, d1, _))) if s2 == s1 && d2 == d1 => {}
                        _ => {
                            same = false;
                            obs = again;
                            break;
                        }
                    }
                }
                if !same {
                    // unstable measurement: take a fresh one
                    obs = trace_one(c, &ranges);
                }
            }
        }
        match obs {
            Ok((steps, digest, res)) => {
                base.entry(group.clone()).or_insert((steps, digest));
                let ev = json!({"op": "det", "id": c.get("group").cloned().unwrap_or(json!(0)),
                                "who": c.get("who").cloned().unwrap_or(json!("")),
                                "res": res, "proj": format!("{}:{:016x}", steps, digest), "steps": steps});
                serde_json::to_writer(&mut w, &ev).unwrap();
                w.write_all(b"\n").unwrap();
            }
            Err(e) => {
                eprintln!("ptrace error: {e}");
                std::process::exit(2);
            }
        }
    }
    w.flush().unwrap();
}
