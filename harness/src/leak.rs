//! C17: capture of `log` records and search of rendered text for key material.

use serde_json::{json, Value};
use std::sync::Mutex;

static RECORDS: Mutex<Vec<(String, String)>> = Mutex::new(Vec::new());
static ACTIVE: std::sync::atomic::AtomicBool = std::sync::atomic::AtomicBool::new(false);
/// format every record (so that lazily evaluated arguments are evaluated) but keep nothing
static DISCARD: std::sync::atomic::AtomicBool = std::sync::atomic::AtomicBool::new(false);

struct Capture;

impl log::Log for Capture {
    fn enabled(&self, _: &log::Metadata) -> bool {
        ACTIVE.load(std::sync::atomic::Ordering::Relaxed)
    }
    fn log(&self, record: &log::Record) {
        if DISCARD.load(std::sync::atomic::Ordering::Relaxed) {
            let _ = format!("{}", record.args());
        } else if ACTIVE.load(std::sync::atomic::Ordering::Relaxed) {
            // render first: a panic inside a Display/Debug impl of the code under test must not poison the store
            let text = format!("{}", record.args());
            RECORDS.lock().unwrap_or_else(|e| e.into_inner()).push((record.level().to_string(), text));
        }
    }
    fn flush(&self) {}
}

static LOGGER: Capture = Capture;

pub fn install() {
    let _ = log::set_logger(&LOGGER);
    log::set_max_level(log::LevelFilter::Off);
}

pub fn start() {
    RECORDS.lock().unwrap_or_else(|e| e.into_inner()).clear();
    ACTIVE.store(true, std::sync::atomic::Ordering::Relaxed);
    log::set_max_level(log::LevelFilter::Trace);
}

/// A process-wide logger at Trace level that renders and drops every record (C18: the ambient log level is
/// not an input of validation).
pub fn start_discard() {
    DISCARD.store(true, std::sync::atomic::Ordering::Relaxed);
    ACTIVE.store(true, std::sync::atomic::Ordering::Relaxed);
    log::set_max_level(log::LevelFilter::Trace);
}

pub fn active() -> bool {
    ACTIVE.load(std::sync::atomic::Ordering::Relaxed)
}

pub fn stop() -> Vec<(String, String)> {
    ACTIVE.store(false, std::sync::atomic::Ordering::Relaxed);
    log::set_max_level(log::LevelFilter::Off);
    std::mem::take(&mut *RECORDS.lock().unwrap_or_else(|e| e.into_inner()))
}

fn b64(data: &[u8], url: bool, pad: bool) -> String {
    let t: &[u8] = if url {
        b"ABCDEFGHIJKLMNOPQRSTUVWXYZabcdefghijklmnopqrstuvwxyz0123456789-_"
    } else {
        b"ABCDEFGHIJKLMNOPQRSTUVWXYZabcdefghijklmnopqrstuvwxyz0123456789+/"
    };
    let mut s = String::new();
    for c in data.chunks(3) {
        let n = (c[0] as u32) << 16 | (*c.get(1).unwrap_or(&0) as u32) << 8 | *c.get(2).unwrap_or(&0) as u32;
        s.push(t[(n >> 18) as usize & 63] as char);
        s.push(t[(n >> 12) as usize & 63] as char);
        if c.len() > 1 {
            s.push(t[(n >> 6) as usize & 63] as char);
        } else if pad {
            s.push('=');
        }
        if c.len() > 2 {
            s.push(t[n as usize & 63] as char);
        } else if pad {
            s.push('=');
        }
    }
    s
}

/// A named secret and every rendering of it we look for.
pub struct Needle {
    pub name: String,
    pub forms: Vec<Vec<u8>>,
}

pub fn needle(name: &str, raw: &[u8], also_text: bool) -> Needle {
    let mut forms: Vec<Vec<u8>> = Vec::new();
    if raw.len() >= 8 {
        forms.push(raw.to_vec());
        let h = crate::sha::hex(raw);
        forms.push(h.clone().into_bytes());
        forms.push(h.to_uppercase().into_bytes());
        for url in [false, true] {
            for pad in [false, true] {
                forms.push(b64(raw, url, pad).into_bytes());
            }
        }
        // a Debug rendering of the bytes as a list of integers
        forms.push(format!("{:?}", raw).into_bytes());
    }
    if also_text {
        forms.push(String::from_utf8_lossy(raw).to_uppercase().into_bytes());
    }
    forms.sort();
    forms.dedup();
    Needle {
        name: name.to_string(),
        forms,
    }
}

fn contains(hay: &[u8], n: &[u8]) -> bool {
    !n.is_empty() && hay.windows(n.len()).any(|w| w == n)
}

pub fn taints(text: &[u8], needles: &[Needle]) -> Value {
    let mut t: Vec<Value> = Vec::new();
    for n in needles {
        if n.forms.iter().any(|f| contains(text, f)) {
            t.push(json!(n.name));
        }
    }
    Value::Array(t)
}
