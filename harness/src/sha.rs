//! The harness's own SHA-256 / HMAC-SHA256 (FIPS 180-4, RFC 2104). Used to evaluate the
//! specification's symbolic crypto terms; deliberately independent of the crate's crypto.rs.

const K: [u32; 64] = [
    0x428a2f98, 0x71374491, 0xb5c0fbcf, 0xe9b5dba5, 0x3956c25b, 0x59f111f1, 0x923f82a4, 0xab1c5ed5, 0xd807aa98,
    0x12835b01, 0x243185be, 0x550c7dc3, 0x72be5d74, 0x80deb1fe, 0x9bdc06a7, 0xc19bf174, 0xe49b69c1, 0xefbe4786,
    0x0fc19dc6, 0x240ca1cc, 0x2de92c6f, 0x4a7484aa, 0x5cb0a9dc, 0x76f988da, 0x983e5152, 0xa831c66d, 0xb00327c8,
    0xbf597fc7, 0xc6e00bf3, 0xd5a79147, 0x06ca6351, 0x14292967, 0x27b70a85, 0x2e1b2138, 0x4d2c6dfc, 0x53380d13,
    0x650a7354, 0x766a0abb, 0x81c2c92e, 0x92722c85, 0xa2bfe8a1, 0xa81a664b, 0xc24b8b70, 0xc76c51a3, 0xd192e819,
    0xd6990624, 0xf40e3585, 0x106aa070, 0x19a4c116, 0x1e376c08, 0x2748774c, 0x34b0bcb5, 0x391c0cb3, 0x4ed8aa4a,
    0x5b9cca4f, 0x682e6ff3, 0x748f82ee, 0x78a5636f, 0x84c87814, 0x8cc70208, 0x90befffa, 0xa4506ceb, 0xbef9a3f7,
    0xc67178f2,
];

pub fn sha256(data: &[u8]) -> [u8; 32] {
    let mut h: [u32; 8] =
        [0x6a09e667, 0xbb67ae85, 0x3c6ef372, 0xa54ff53a, 0x510e527f, 0x9b05688c, 0x1f83d9ab, 0x5be0cd19];
    let mut msg = data.to_vec();
    let bitlen = (data.len() as u64).wrapping_mul(8);
    msg.push(0x80);
    while msg.len() % 64 != 56 {
        msg.push(0);
    }
    msg.extend_from_slice(&bitlen.to_be_bytes());
    for chunk in msg.chunks(64) {
        let mut w = [0u32; 64];
        for i in 0..16 {
            w[i] = u32::from_be_bytes([chunk[4 * i], chunk[4 * i + 1], chunk[4 * i + 2], chunk[4 * i + 3]]);
        }
        for i in 16..64 {
            let s0 = w[i - 15].rotate_right(7) ^ w[i - 15].rotate_right(18) ^ (w[i - 15] >> 3);
            let s1 = w[i - 2].rotate_right(17) ^ w[i - 2].rotate_right(19) ^ (w[i - 2] >> 10);
            w[i] = w[i - 16].wrapping_add(s0).wrapping_add(w[i - 7]).wrapping_add(s1);
        }
        let (mut a, mut b, mut c, mut d, mut e, mut f, mut g, mut hh) =
            (h[0], h[1], h[2], h[3], h[4], h[5], h[6], h[7]);
        for i in 0..64 {
            let s1 = e.rotate_right(6) ^ e.rotate_right(11) ^ e.rotate_right(25);
            let ch = (e & f) ^ ((!e) & g);
            let t1 = hh.wrapping_add(s1).wrapping_add(ch).wrapping_add(K[i]).wrapping_add(w[i]);
            let s0 = a.rotate_right(2) ^ a.rotate_right(13) ^ a.rotate_right(22);
            let maj = (a & b) ^ (a & c) ^ (b & c);
            let t2 = s0.wrapping_add(maj);
            hh = g;
            g = f;
            f = e;
            e = d.wrapping_add(t1);
            d = c;
            c = b;
            b = a;
            a = t1.wrapping_add(t2);
        }
        h[0] = h[0].wrapping_add(a);
        h[1] = h[1].wrapping_add(b);
        h[2] = h[2].wrapping_add(c);
        h[3] = h[3].wrapping_add(d);
        h[4] = h[4].wrapping_add(e);
        h[5] = h[5].wrapping_add(f);
        h[6] = h[6].wrapping_add(g);
        h[7] = h[7].wrapping_add(hh);
    }
    let mut out = [0u8; 32];
    for i in 0..8 {
        out[4 * i..4 * i + 4].copy_from_slice(&h[i].to_be_bytes());
    }
    out
}

pub fn hmac_sha256(key: &[u8], msg: &[u8]) -> [u8; 32] {
    let mut k = [0u8; 64];
    if key.len() > 64 {
        k[..32].copy_from_slice(&sha256(key));
    } else {
        k[..key.len()].copy_from_slice(key);
    }
    let mut inner = Vec::with_capacity(64 + msg.len());
    inner.extend(k.iter().map(|b| b ^ 0x36));
    inner.extend_from_slice(msg);
    let ih = sha256(&inner);
    let mut outer = Vec::with_capacity(96);
    outer.extend(k.iter().map(|b| b ^ 0x5c));
    outer.extend_from_slice(&ih);
    sha256(&outer)
}

pub fn hex(b: &[u8]) -> String {
    let mut s = String::with_capacity(b.len() * 2);
    for x in b {
        s.push_str(&format!("{:02x}", x));
    }
    s
}

pub fn selftest() -> Result<(), String> {
    let v = [
        ("", "e3b0c44298fc1c149afbf4c8996fb92427ae41e4649b934ca495991b7852b855"),
        ("abc", "ba7816bf8f01cfea414140de5dae2223b00361a396177a9cb410ff61f20015ad"),
        (
            "abcdbcdecdefdefgefghfghighijhijkijkljklmklmnlmnomnopnopq",
            "248d6a61d20638b8e5c026930c3e6039a33ce45964ff2167f6ecedd419db06c1",
        ),
    ];
    for (m, d) in v {
        if hex(&sha256(m.as_bytes())) != d {
            return Err(format!("sha256({m:?})"));
        }
    }
    let million = vec![b'a'; 1_000_000];
    if hex(&sha256(&million)) != "cdc76e5c9914fb9281a1c7e284d73e67f1809a48a497200e046d39ccc7112cd0" {
        return Err("sha256(1M a)".into());
    }
    // RFC 4231 test cases 1, 2, 6 (key longer than the block size)
    if hex(&hmac_sha256(&[0x0b; 20], b"Hi There"))
        != "b0344c61d8db38535ca8afceaf0bf12b881dc200c9833da726e9376c2e32cff7"
    {
        return Err("hmac tc1".into());
    }
    if hex(&hmac_sha256(b"Jefe", b"what do ya want for nothing?"))
        != "5bdcc146bf60754e6a042426089575c75a003f089d2739839dec58b964ec3843"
    {
        return Err("hmac tc2".into());
    }
    if hex(&hmac_sha256(&[0xaa; 131], b"Test Using Larger Than Block-Size Key - Hash Key First"))
        != "60e431591ee0b67f0d8a26aacbf5b77f8e0bc6213728c5140546040f0ee37f54"
    {
        return Err("hmac tc6".into());
    }
    Ok(())
}
