//! Function-level operations: one public (unstable-feature) function of the library per case.

use crate::util::*;
use scratchstack_aws_signature::canonical as c;
use serde_json::{json, Map, Value};

pub fn run(op: &str, case: &Value) -> Value {
    let mut m: Map<String, Value> = case.as_object().cloned().unwrap_or_default();
    match op {
        "path" => {
            let p = get_bytes(case, "p");
            let s3 = get_bool(case, "s3");
            m.insert("p".into(), jbytes(&p));
            m.insert("s3".into(), json!(s3));
            match std::str::from_utf8(&p) {
                Err(_) => res_other(&mut m, "inadm", "not utf-8"),
                Ok(s) => match guarded(|| c::canonicalize_uri_path(s, s3)) {
                    Ok(Ok(out)) => res_ok(&mut m, out.as_bytes()),
                    Ok(Err(e)) => res_err(&mut m, &e),
                    Err(p) => res_other(&mut m, "panic", &p),
                },
            }
        }
        "query" => {
            let q = get_bytes(case, "q");
            m.insert("q".into(), jbytes(&q));
            match std::str::from_utf8(&q) {
                Err(_) => res_other(&mut m, "inadm", "not utf-8"),
                Ok(s) => {
                    match guarded(|| c::query_string_to_normalized_map(s).map(|mp| c::canonicalize_query_to_string(&mp)))
                    {
                        Ok(Ok(out)) => res_ok(&mut m, out.as_bytes()),
                        Ok(Err(e)) => res_err(&mut m, &e),
                        Err(p) => res_other(&mut m, "panic", &p),
                    }
                }
            }
        }
        "elem" => {
            let el = get_bytes(case, "el");
            let plus = get_bool(case, "plus");
            m.insert("el".into(), jbytes(&el));
            m.insert("plus".into(), json!(plus));
            match std::str::from_utf8(&el) {
                Err(_) => res_other(&mut m, "inadm", "not utf-8"),
                Ok(s) => {
                    let r = guarded(|| {
                        if plus {
                            c::normalize_query_string_element(s)
                        } else {
                            c::normalize_uri_path_component(s)
                        }
                    });
                    match r {
                        Ok(Ok(out)) => res_ok(&mut m, out.as_bytes()),
                        Ok(Err(e)) => res_err(&mut m, &e),
                        Err(p) => res_other(&mut m, "panic", &p),
                    }
                }
            }
        }
        "hval" => {
            let v = get_bytes(case, "v");
            m.insert("v".into(), jbytes(&v));
            match guarded(|| c::normalize_header_value(&v)) {
                Ok(out) => res_ok(&mut m, &out),
                Err(p) => res_other(&mut m, "panic", &p),
            }
        }
        "ts" => ts(case, &mut m),
        "key" => key(case, &mut m),
        _ => unreachable!(),
    }
    Value::Object(m)
}

fn blank_ts(m: &mut Map<String, Value>) {
    m.insert("inst".into(), json!([0, 0, 0]));
    m.insert("civil".into(), json!([0, 0, 0, 0, 0, 0]));
    m.insert("stsline".into(), json!([]));
    m.insert("scopedate".into(), json!([]));
}

/// C16: the only public route to the timestamp parser is the (unstable) authenticator factory.
fn ts(case: &Value, m: &mut Map<String, Value>) {
    use chrono::{Datelike, Timelike};
    let s = get_bytes(case, "s");
    m.insert("s".into(), jbytes(&s));
    blank_ts(m);
    let st = match String::from_utf8(s) {
        Ok(x) => x,
        Err(_) => return res_other(m, "inadm", "not utf-8"),
    };
    let r = guarded(|| {
        let req = http::Request::builder().method("GET").uri("/").header("host", "example.com").body(()).unwrap();
        let (parts, _) = req.into_parts();
        let (creq, _, _) = c::CanonicalRequest::from_request_parts(
            parts,
            bytes::Bytes::new(),
            scratchstack_aws_signature::SignatureOptions::default(),
        )
        .expect("fixed request");
        let mut b = scratchstack_aws_signature::auth::SigV4Authenticator::builder();
        b.credential("AKIDEXAMPLE/20150830/us-east-1/service/aws4_request".to_string());
        b.signature("00".to_string());
        let ap = c::AuthParams {
            builder: b,
            signed_headers: vec!["host".to_string()],
            timestamp_str: st,
        };
        creq.get_authenticator_from_auth_parameters(ap).map(|a| (a.request_timestamp(), a.get_string_to_sign()))
    });
    match r {
        Err(p) => res_other(m, "panic", &p),
        Ok(Err(e)) => res_err(m, &e),
        Ok(Ok((t, sts))) => {
            res_ok(m, &[]);
            let d = t.date_naive();
            m.insert(
                "inst".into(),
                json!([d.num_days_from_ce(), t.time().num_seconds_from_midnight(), t.time().nanosecond()]),
            );
            m.insert("civil".into(), json!([d.year(), d.month(), d.day(), t.hour(), t.minute(), t.second()]));
            let line: Vec<u8> = sts.split(|b| *b == b'\n').nth(1).unwrap_or(&[]).to_vec();
            m.insert("stsline".into(), jbytes(&line));
            // the date the library would put in the provider request / compare the scope with
            m.insert("scopedate".into(), jbytes(d.format("%Y%m%d").to_string().as_bytes()));
        }
    }
}

fn from_str_cap<const M: usize>(s: &str) -> Result<Result<(), ()>, String> {
    use std::str::FromStr;
    guarded(|| scratchstack_aws_signature::KSecretKey::<M>::from_str(s).map(|_| ()).map_err(|_| ()))
}

/// C06: secret-key construction for several capacities; full derivation chain for the default type.
fn key(case: &Value, m: &mut Map<String, Value>) {
    use scratchstack_aws_signature::KSecretKey;
    use std::str::FromStr;
    let secret = get_bytes(case, "secret");
    let cap = get_i64(case, "cap");
    let region = get_bytes(case, "region");
    let service = get_bytes(case, "service");
    let date: Vec<i64> = case.get("date").and_then(|v| v.as_array()).map(|a| a.iter().map(|x| x.as_i64().unwrap_or(0)).collect()).unwrap_or_default();
    m.insert("secret".into(), jbytes(&secret));
    m.insert("region".into(), jbytes(&region));
    m.insert("service".into(), jbytes(&service));
    for k in ["readback", "kdate", "kregion", "kservice", "ksigning", "oracle"] {
        m.insert(k.into(), json!([]));
    }
    let (ss, rs, sv) = match (std::str::from_utf8(&secret), std::str::from_utf8(&region), std::str::from_utf8(&service)) {
        (Ok(a), Ok(b), Ok(c)) => (a, b, c),
        _ => return res_other(m, "inadm", "not utf-8"),
    };
    let r = match cap {
        0 => from_str_cap::<0>(ss),
        3 => from_str_cap::<3>(ss),
        4 => from_str_cap::<4>(ss),
        5 => from_str_cap::<5>(ss),
        8 => from_str_cap::<8>(ss),
        44 => from_str_cap::<44>(ss),
        64 => from_str_cap::<64>(ss),
        100 => from_str_cap::<100>(ss),
        _ => return res_other(m, "inadm", "capacity not instantiated"),
    };
    match r {
        Err(p) => return res_other(m, "panic", &p),
        Ok(Err(())) => {
            res_other(m, "err", "Key too long");
            m.insert("kind".into(), json!("KeyTooLong"));
            return;
        }
        Ok(Ok(())) => {}
    }
    res_ok(m, &[]);
    if cap != 44 || date.len() != 3 {
        return;
    }
    let nd = match chrono::NaiveDate::from_ymd_opt(date[0] as i32, date[1] as u32, date[2] as u32) {
        Some(d) => d,
        None => return res_other(m, "inadm", "no such date"),
    };
    let r = guarded(|| {
        let k = KSecretKey::from_str(ss).unwrap();
        let rb: Vec<u8> = AsRef::<[u8]>::as_ref(&k).to_vec();
        let kd = k.to_kdate(nd);
        let kr = [k.to_kregion(nd, rs), kd.to_kregion(rs)];
        let kv = [k.to_kservice(nd, rs, sv), kd.to_kservice(rs, sv), kr[0].to_kservice(sv)];
        let kg = [k.to_ksigning(nd, rs, sv), kd.to_ksigning(rs, sv), kr[0].to_ksigning(sv), kv[0].to_ksigning()];
        (
            rb,
            vec![kd.as_ref().to_vec()],
            kr.iter().map(|x| x.as_ref().to_vec()).collect::<Vec<_>>(),
            kv.iter().map(|x| x.as_ref().to_vec()).collect::<Vec<_>>(),
            kg.iter().map(|x| x.as_ref().to_vec()).collect::<Vec<_>>(),
        )
    });
    match r {
        Err(p) => res_other(m, "panic", &p),
        Ok((rb, kd, kr, kv, kg)) => {
            let arr = |v: &Vec<Vec<u8>>| Value::Array(v.iter().map(|x| jbytes(x)).collect());
            m.insert("readback".into(), jbytes(&rb));
            m.insert("kdate".into(), arr(&kd));
            m.insert("kregion".into(), arr(&kr));
            m.insert("kservice".into(), arr(&kv));
            m.insert("ksigning".into(), arr(&kg));
            // the harness's own evaluation of the four HMAC steps; TLC checks the wiring of the inputs
            let mut k0 = b"AWS4".to_vec();
            k0.extend_from_slice(&secret);
            let m1 = format!("{:04}{:02}{:02}", date[0], date[1], date[2]).into_bytes();
            let o1 = crate::sha::hmac_sha256(&k0, &m1);
            let o2 = crate::sha::hmac_sha256(&o1, &region);
            let o3 = crate::sha::hmac_sha256(&o2, &service);
            let o4 = crate::sha::hmac_sha256(&o3, b"aws4_request");
            m.insert(
                "oracle".into(),
                json!([
                    {"key": jbytes(&k0), "msg": jbytes(&m1), "out": jbytes(&o1)},
                    {"key": jbytes(&o1), "msg": jbytes(&region), "out": jbytes(&o2)},
                    {"key": jbytes(&o2), "msg": jbytes(&service), "out": jbytes(&o3)},
                    {"key": jbytes(&o3), "msg": jbytes(b"aws4_request"), "out": jbytes(&o4)},
                ]),
            );
        }
    }
}
