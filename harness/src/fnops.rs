//! Function-level operations: one public (unstable-feature) function of the library per case.

use crate::util::*;
use scratchstack_aws_signature::canonical as c;
use serde_json::{json, Map, Value};

pub fn run(op: &str, case: &Value) -> Value {
    let mut m: Map<String, Value> = case.as_object().cloned().unwrap_or_default();
    match op {
        "path" => {
            let p = get_bytes(case, "p");
            let s3 = get_bool(case, "s3");
            m.insert("p".into(), jbytes(&p));
            m.insert("s3".into(), json!(s3));
            match std::str::from_utf8(&p) {
                Err(_) => res_other(&mut m, "inadm", "not utf-8"),
                Ok(s) => match guarded(|| c::canonicalize_uri_path(s, s3)) {
                    Ok(Ok(out)) => res_ok(&mut m, out.as_bytes()),
                    Ok(Err(e)) => res_err(&mut m, &e),
                    Err(p) => res_other(&mut m, "panic", &p),
                },
            }
        }
        "query" => {
            let q = get_bytes(case, "q");
            m.insert("q".into(), jbytes(&q));
            match std::str::from_utf8(&q) {
                Err(_) => res_other(&mut m, "inadm", "not utf-8"),
                Ok(s) => {
                    match guarded(|| c::query_string_to_normalized_map(s).map(|mp| c::canonicalize_query_to_string(&mp)))
                    {
                        Ok(Ok(out)) => res_ok(&mut m, out.as_bytes()),
                        Ok(Err(e)) => res_err(&mut m, &e),
                        Err(p) => res_other(&mut m, "panic", &p),
                    }
                }
            }
        }
        "elem" => {
            let el = get_bytes(case, "el");
            let plus = get_bool(case, "plus");
            m.insert("el".into(), jbytes(&el));
            m.insert("plus".into(), json!(plus));
            match std::str::from_utf8(&el) {
                Err(_) => res_other(&mut m, "inadm", "not utf-8"),
                Ok(s) => {
                    let r = guarded(|| {
                        if plus {
                            c::normalize_query_string_element(s)
                        } else {
                            c::normalize_uri_path_component(s)
                        }
                    });
                    match r {
                        Ok(Ok(out)) => res_ok(&mut m, out.as_bytes()),
                        Ok(Err(e)) => res_err(&mut m, &e),
                        Err(p) => res_other(&mut m, "panic", &p),
                    }
                }
            }
        }
        "hval" => {
            let v = get_bytes(case, "v");
            m.insert("v".into(), jbytes(&v));
            match guarded(|| c::normalize_header_value(&v)) {
                Ok(out) => res_ok(&mut m, &out),
                Err(p) => res_other(&mut m, "panic", &p),
            }
        }
        "helper" => helper(case, &mut m),
        "ts" => ts(case, &mut m),
        "foldsize" => foldsize(case, &mut m),
        "err" => errtable(case, &mut m),
        "builders" => builders(&mut m),
        "vreqs" => vreqs(case, &mut m),
        "leakfn" => leakfn(case, &mut m),
        "key" => key(case, &mut m),
        _ => unreachable!(),
    }
    Value::Object(m)
}

fn blank_ts(m: &mut Map<String, Value>) {
    m.insert("inst".into(), json!([0, 0, 0]));
    m.insert("civil".into(), json!([0, 0, 0, 0, 0, 0]));
    m.insert("stsline".into(), json!([]));
    m.insert("scopedate".into(), json!([]));
}

/// C16: the only public route to the timestamp parser is the (unstable) authenticator factory.
fn ts(case: &Value, m: &mut Map<String, Value>) {
    use chrono::{Datelike, Timelike};
    let s = get_bytes(case, "s");
    m.insert("s".into(), jbytes(&s));
    blank_ts(m);
    let st = match String::from_utf8(s) {
        Ok(x) => x,
        Err(_) => return res_other(m, "inadm", "not utf-8"),
    };
    let r = guarded(|| {
        let req = http::Request::builder().method("GET").uri("/").header("host", "example.com").body(()).unwrap();
        let (parts, _) = req.into_parts();
        let (creq, _, _) = c::CanonicalRequest::from_request_parts(
            parts,
            bytes::Bytes::new(),
            scratchstack_aws_signature::SignatureOptions::default(),
        )
        .expect("fixed request");
        let mut b = scratchstack_aws_signature::auth::SigV4Authenticator::builder();
        b.credential("AKIDEXAMPLE/20150830/us-east-1/service/aws4_request".to_string());
        b.signature("00".to_string());
        let ap = c::AuthParams {
            builder: b,
            signed_headers: vec!["host".to_string()],
            timestamp_str: st,
        };
        creq.get_authenticator_from_auth_parameters(ap).map(|a| (a.request_timestamp().with_timezone(&chrono::Utc), a.get_string_to_sign()))
    });
    match r {
        Err(p) => res_other(m, "panic", &p),
        Ok(Err(e)) => res_err(m, &e),
        Ok(Ok((t, sts))) => {
            res_ok(m, &[]);
            let d = t.date_naive();
            m.insert(
                "inst".into(),
                json!([d.num_days_from_ce(), t.time().num_seconds_from_midnight(), t.time().nanosecond()]),
            );
            m.insert("civil".into(), json!([d.year(), d.month(), d.day(), t.hour(), t.minute(), t.second()]));
            let line: Vec<u8> = sts.split(|b| *b == b'\n').nth(1).unwrap_or(&[]).to_vec();
            m.insert("stsline".into(), jbytes(&line));
            // the date the library would put in the provider request / compare the scope with
            m.insert("scopedate".into(), jbytes(d.format("%Y%m%d").to_string().as_bytes()));
        }
    }
}

fn from_str_cap<const M: usize>(s: &str) -> Result<Result<(), ()>, String> {
    use std::str::FromStr;
    guarded(|| scratchstack_aws_signature::KSecretKey::<M>::from_str(s).map(|_| ()).map_err(|_| ()))
}

/// C06: secret-key construction for several capacities; full derivation chain for the default type.
fn key(case: &Value, m: &mut Map<String, Value>) {
    use scratchstack_aws_signature::KSecretKey;
    use std::str::FromStr;
    let secret = get_bytes(case, "secret");
    let cap = get_i64(case, "cap");
    let region = get_bytes(case, "region");
    let service = get_bytes(case, "service");
    let date: Vec<i64> = case.get("date").and_then(|v| v.as_array()).map(|a| a.iter().map(|x| x.as_i64().unwrap_or(0)).collect()).unwrap_or_default();
    m.insert("secret".into(), jbytes(&secret));
    m.insert("region".into(), jbytes(&region));
    m.insert("service".into(), jbytes(&service));
    for k in ["readback", "kdate", "kregion", "kservice", "ksigning", "oracle"] {
        m.insert(k.into(), json!([]));
    }
    let (ss, rs, sv) = match (std::str::from_utf8(&secret), std::str::from_utf8(&region), std::str::from_utf8(&service)) {
        (Ok(a), Ok(b), Ok(c)) => (a, b, c),
        _ => return res_other(m, "inadm", "not utf-8"),
    };
    let r = match cap {
        0 => from_str_cap::<0>(ss),
        3 => from_str_cap::<3>(ss),
        4 => from_str_cap::<4>(ss),
        5 => from_str_cap::<5>(ss),
        8 => from_str_cap::<8>(ss),
        44 => from_str_cap::<44>(ss),
        64 => from_str_cap::<64>(ss),
        100 => from_str_cap::<100>(ss),
        255 => from_str_cap::<255>(ss),
        256 => from_str_cap::<256>(ss),
        300 => from_str_cap::<300>(ss),
        _ => return res_other(m, "inadm", "capacity not instantiated"),
    };
    match r {
        Err(p) => return res_other(m, "panic", &p),
        Ok(Err(())) => {
            res_other(m, "err", "Key too long");
            m.insert("kind".into(), json!("KeyTooLong"));
            return;
        }
        Ok(Ok(())) => {}
    }
    res_ok(m, &[]);
    if cap != 44 || date.len() != 3 {
        return;
    }
    let nd = match chrono::NaiveDate::from_ymd_opt(date[0] as i32, date[1] as u32, date[2] as u32) {
        Some(d) => d,
        None => return res_other(m, "inadm", "no such date"),
    };
    let r = guarded(|| {
        let k = KSecretKey::from_str(ss).unwrap();
        let rb: Vec<u8> = AsRef::<[u8]>::as_ref(&k).to_vec();
        let kd = k.to_kdate(nd);
        let kr = [k.to_kregion(nd, rs), kd.to_kregion(rs)];
        let kv = [k.to_kservice(nd, rs, sv), kd.to_kservice(rs, sv), kr[0].to_kservice(sv)];
        let kg = [k.to_ksigning(nd, rs, sv), kd.to_ksigning(rs, sv), kr[0].to_ksigning(sv), kv[0].to_ksigning()];
        (
            rb,
            vec![kd.as_ref().to_vec()],
            kr.iter().map(|x| x.as_ref().to_vec()).collect::<Vec<_>>(),
            kv.iter().map(|x| x.as_ref().to_vec()).collect::<Vec<_>>(),
            kg.iter().map(|x| x.as_ref().to_vec()).collect::<Vec<_>>(),
        )
    });
    match r {
        Err(p) => res_other(m, "panic", &p),
        Ok((rb, kd, kr, kv, kg)) => {
            let arr = |v: &Vec<Vec<u8>>| Value::Array(v.iter().map(|x| jbytes(x)).collect());
            m.insert("readback".into(), jbytes(&rb));
            m.insert("kdate".into(), arr(&kd));
            m.insert("kregion".into(), arr(&kr));
            m.insert("kservice".into(), arr(&kv));
            m.insert("ksigning".into(), arr(&kg));
            // the harness's own evaluation of the four HMAC steps; TLC checks the wiring of the inputs
            let mut k0 = b"AWS4".to_vec();
            k0.extend_from_slice(&secret);
            let m1 = format!("{:04}{:02}{:02}", date[0], date[1], date[2]).into_bytes();
            let o1 = crate::sha::hmac_sha256(&k0, &m1);
            let o2 = crate::sha::hmac_sha256(&o1, &region);
            let o3 = crate::sha::hmac_sha256(&o2, &service);
            let o4 = crate::sha::hmac_sha256(&o3, b"aws4_request");
            m.insert(
                "oracle".into(),
                json!([
                    {"key": jbytes(&k0), "msg": jbytes(&m1), "out": jbytes(&o1)},
                    {"key": jbytes(&o1), "msg": jbytes(&region), "out": jbytes(&o2)},
                    {"key": jbytes(&o2), "msg": jbytes(&service), "out": jbytes(&o3)},
                    {"key": jbytes(&o3), "msg": jbytes(b"aws4_request"), "out": jbytes(&o4)},
                ]),
            );
        }
    }
}

/// C08 size ladder: a form body of n+2 bytes folded into the query string (no authentication at all,
/// so a request that survives folding is refused at rule 5).
fn foldsize(case: &Value, m: &mut Map<String, Value>) {
    let n = get_i64(case, "n") as usize;
    let path = get_bytes(case, "path");
    m.insert("n".into(), json!(n));
    m.insert("path".into(), jbytes(&path));
    let mut body = b"a=".to_vec();
    body.resize(n + 2, b'b');
    let built = crate::req::Built {
        method: b"POST".to_vec(),
        uri: path.clone(),
        version: "HTTP/1.1".into(),
        headers: vec![
            (b"host".to_vec(), b"example.com".to_vec()),
            (b"content-type".to_vec(), b"application/x-www-form-urlencoded".to_vec()),
        ],
        body,
    };
    let req = match built.request() {
        Ok(r) => r,
        Err(e) => return res_other(m, "inadm", &e),
    };
    let fold = case.get("fold").and_then(|v| v.as_bool()).unwrap_or(true);
    m.insert("fold".into(), json!(fold));
    let cfg = json!({"region": "us-east-1", "service": "service", "now": [735840, 45360, 0], "s3": false, "fold": fold});
    let ev = crate::req::run_plain(req, &cfg);
    for k in ["res", "kind", "code", "status", "msg"] {
        m.insert(k.into(), ev.get(k).cloned().unwrap_or(json!("")));
    }
    m.insert("out".into(), json!([]));
}

/// C13/C08: every error variant through the public error API.
fn errtable(case: &Value, m: &mut Map<String, Value>) {
    use scratchstack_aws_signature::SignatureError;
    use std::error::Error;
    let kind = get_str(case, "kind").to_string();
    let via = get_str(case, "via").to_string();
    m.insert("kind_in".into(), json!(kind));
    m.insert("via".into(), json!(via));
    let r = guarded(|| {
        let e: SignatureError = match via.as_str() {
            "box" => {
                let b: Box<dyn Error + Send + Sync> = Box::new(crate::req::sig_error(&kind, "boxed"));
                SignatureError::from(b)
            }
            "foreign" => {
                let b: Box<dyn Error + Send + Sync> = Box::new(std::fmt::Error);
                SignatureError::from(b)
            }
            "io" => SignatureError::from(std::io::Error::new(std::io::ErrorKind::Other, "io")),
            _ => crate::req::sig_error(&kind, "direct"),
        };
        let disp = e.to_string();
        let dbg = format!("{:?}", e);
        let has_source = e.source().is_some();
        (e, disp, dbg, has_source)
    });
    match r {
        Err(p) => res_other(m, "panic", &p),
        Ok((e, disp, dbg, has_source)) => {
            res_err(m, &e);
            m.insert("display_len".into(), json!(disp.len()));
            m.insert("debug_len".into(), json!(dbg.len()));
            m.insert("has_source".into(), json!(has_source));
        }
    }
}

/// C08: builders with required fields missing return errors, never panic.
fn builders(m: &mut Map<String, Value>) {
    use scratchstack_aws_signature::{
        auth::{SigV4Authenticator, SigV4AuthenticatorResponse},
        GetSigningKeyRequest, GetSigningKeyResponse,
    };
    let mut outs: Vec<Value> = Vec::new();
    let mut rec = |name: &str, r: Result<bool, String>| {
        outs.push(match r {
            Ok(ok) => json!({"name": name, "res": if ok { "ok" } else { "err" }}),
            Err(p) => json!({"name": name, "res": "panic", "msg": p}),
        })
    };
    rec("GetSigningKeyRequest::empty", guarded(|| GetSigningKeyRequest::builder().build().is_ok()));
    rec("GetSigningKeyRequest::no_date", guarded(|| GetSigningKeyRequest::builder().access_key("a").region("r").service("s").build().is_ok()));
    rec("GetSigningKeyRequest::no_region", guarded(|| {
        GetSigningKeyRequest::builder().access_key("a").service("s").request_date(chrono::NaiveDate::from_ymd_opt(2015, 8, 30).unwrap()).build().is_ok()
    }));
    rec("GetSigningKeyRequest::full", guarded(|| {
        GetSigningKeyRequest::builder().access_key("a").region("r").service("s").request_date(chrono::NaiveDate::from_ymd_opt(2015, 8, 30).unwrap()).build().is_ok()
    }));
    rec("GetSigningKeyResponse::empty", guarded(|| GetSigningKeyResponse::builder().build().is_ok()));
    rec("GetSigningKeyResponse::default", guarded(|| {
        let d = GetSigningKeyResponse::default();
        format!("{:?}", d).len() > 0
    }));
    rec("SigV4AuthenticatorResponse::empty", guarded(|| SigV4AuthenticatorResponse::builder().build().is_ok()));
    rec("SigV4Authenticator::empty", guarded(|| SigV4Authenticator::builder().build().is_ok()));
    rec("SigV4Authenticator::partial", guarded(|| {
        let mut b = SigV4Authenticator::builder();
        b.credential("x".to_string());
        b.build().is_ok()
    }));
    rec("SigV4Authenticator::getters", guarded(|| {
        let b = SigV4Authenticator::builder();
        b.get_credential().is_none() && b.get_signature().is_none() && b.get_session_token().is_none()
    }));
    rec("SignatureOptions", guarded(|| {
        let a = scratchstack_aws_signature::SignatureOptions::url_encode_form();
        let b = scratchstack_aws_signature::SignatureOptions::S3;
        let c = scratchstack_aws_signature::SignatureOptions::default();
        a.url_encode_form && !a.s3 && b.s3 && !b.url_encode_form && !c.s3 && !c.url_encode_form && format!("{:?}", a).len() > 0
    }));
    m.insert("outs".into(), Value::Array(outs));
    res_ok(m, &[]);
}

/// C05: the dynamic requirements container driven through an operation sequence.
fn vreqs(case: &Value, m: &mut Map<String, Value>) {
    use scratchstack_aws_signature::{SignedHeaderRequirements, VecSignedHeaderRequirements};
    let ops: Vec<(String, String, String)> = case
        .get("ops")
        .and_then(|v| v.as_array())
        .map(|a| {
            a.iter()
                .map(|o| (get_str(o, "op").to_string(), get_str(o, "list").to_string(), String::from_utf8_lossy(&get_bytes(o, "name")).to_string()))
                .collect()
        })
        .unwrap_or_default();
    let init = |k: &str| -> Vec<String> {
        case.get(k).and_then(|v| v.as_array()).map(|a| a.iter().map(|x| String::from_utf8_lossy(&bytes_of(x)).to_string()).collect()).unwrap_or_default()
    };
    let (ia, ii, ip) = (init("always"), init("ifin"), init("prefix"));
    let r = guarded(|| {
        let ar: Vec<&str> = ia.iter().map(|s| s.as_str()).collect();
        let ir: Vec<&str> = ii.iter().map(|s| s.as_str()).collect();
        let pr: Vec<&str> = ip.iter().map(|s| s.as_str()).collect();
        let mut v = VecSignedHeaderRequirements::new(&ar, &ir, &pr);
        for (op, list, name) in &ops {
            match (op.as_str(), list.as_str()) {
                ("add", "always") => v.add_always_present(name),
                ("add", "ifin") => v.add_if_in_request(name),
                ("add", "prefix") => v.add_prefix(name),
                ("remove", "always") => v.remove_always_present(name),
                ("remove", "ifin") => v.remove_if_in_request(name),
                ("remove", "prefix") => v.remove_prefix(name),
                _ => {}
            }
        }
        let l = |xs: &[std::borrow::Cow<'_, str>]| Value::Array(xs.iter().map(|s| jbytes(s.as_bytes())).collect());
        (l(v.always_present()), l(v.if_in_request()), l(v.prefixes()))
    });
    match r {
        Err(p) => res_other(m, "panic", &p),
        Ok((a, i, p)) => {
            res_ok(m, &[]);
            m.insert("got_always".into(), a);
            m.insert("got_ifin".into(), i);
            m.insert("got_prefix".into(), p);
        }
    }
}

/// C17: Debug / Display of every public value that holds or is derived from key material.
fn leakfn(case: &Value, m: &mut Map<String, Value>) {
    use scratchstack_aws_signature::{GetSigningKeyRequest, GetSigningKeyResponse, KSecretKey};
    use std::str::FromStr;
    let secret = get_bytes(case, "secret");
    m.insert("secret".into(), jbytes(&secret));
    m.insert("renders".into(), json!([]));
    let ss = match std::str::from_utf8(&secret) {
        Ok(s) => s.to_string(),
        Err(_) => return res_other(m, "inadm", "not utf-8"),
    };
    let date = chrono::NaiveDate::from_ymd_opt(2015, 8, 30).unwrap();
    crate::leak::start();
    let r = guarded(|| {
        let mut out: Vec<(String, String)> = Vec::new();
        let k = match KSecretKey::from_str(&ss) {
            Ok(k) => k,
            Err(e) => {
                out.push(("KeyTooLongError.debug".into(), format!("{:?}", e)));
                out.push(("KeyTooLongError.display".into(), format!("{}", e)));
                // what a provider that propagates it with `?` hands back, and what the library makes of that
                let boxed: tower::BoxError = Box::new(e);
                let se = scratchstack_aws_signature::SignatureError::from(boxed);
                out.push(("SignatureError(KeyTooLongError).debug".into(), format!("{:?}", se)));
                out.push(("SignatureError(KeyTooLongError).display".into(), format!("{}", se)));
                return (out, Vec::new());
            }
        };
        let kd = k.to_kdate(date);
        let kr = kd.to_kregion("us-east-1");
        let kv = kr.to_kservice("service");
        let kg = kv.to_ksigning();
        out.push(("KSecretKey.debug".into(), format!("{:?}", k)));
        out.push(("KSecretKey.display".into(), format!("{}", k)));
        out.push(("KSecretKey.debug#".into(), format!("{:#?}", k)));
        out.push(("KDateKey.debug".into(), format!("{:?}", kd)));
        out.push(("KDateKey.display".into(), format!("{}", kd)));
        out.push(("KRegionKey.debug".into(), format!("{:?}", kr)));
        out.push(("KRegionKey.display".into(), format!("{}", kr)));
        out.push(("KServiceKey.debug".into(), format!("{:?}", kv)));
        out.push(("KServiceKey.display".into(), format!("{}", kv)));
        out.push(("KSigningKey.debug".into(), format!("{:?}", kg)));
        out.push(("KSigningKey.display".into(), format!("{}", kg)));
        let resp = GetSigningKeyResponse::builder().signing_key(kg).build();
        out.push(("GetSigningKeyResponse.debug".into(), format!("{:?}", resp)));
        out.push(("GetSigningKeyResponse.debug#".into(), format!("{:#?}", resp)));
        if let Ok(r) = resp {
            out.push(("GetSigningKeyResponse.signing_key.debug".into(), format!("{:?}", r.signing_key())));
            let ar: scratchstack_aws_signature::auth::SigV4AuthenticatorResponse = r.into();
            out.push(("SigV4AuthenticatorResponse.debug".into(), format!("{:?}", ar)));
        }
        let req = GetSigningKeyRequest::builder().access_key("AKIDEXAMPLE").region("us-east-1").service("service").request_date(date).build();
        out.push(("GetSigningKeyRequest.debug".into(), format!("{:?}", req)));
        let keys = vec![
            ("kDate", kd.as_ref().to_vec()),
            ("kRegion", kr.as_ref().to_vec()),
            ("kService", kv.as_ref().to_vec()),
            ("kSigning", kg.as_ref().to_vec()),
        ];
        (out, keys)
    });
    let records = crate::leak::stop();
    match r {
        Err(p) => res_other(m, "panic", &p),
        Ok((mut renders, keys)) => {
            // log records at debug level or above are renderings too (trace-level records are not covered)
            for (level, msg) in records {
                if level != "TRACE" {
                    renders.push((format!("log.{}", level), msg));
                }
            }
            let mut needles = vec![crate::leak::needle("secret", &secret, false)];
            let mut pref = b"AWS4".to_vec();
            pref.extend_from_slice(&secret);
            needles.push(crate::leak::needle("secret", &pref, false));
            for (n, k) in &keys {
                needles.push(crate::leak::needle(n, k, false));
            }
            let evs: Vec<Value> = renders
                .iter()
                .map(|(w, t)| json!({"what": w, "taints": crate::leak::taints(t.as_bytes(), &needles)}))
                .collect();
            res_ok(m, &[]);
            m.insert("renders".into(), Value::Array(evs));
        }
    }
}


/// The small byte-level helpers the canonicaliser is built from (public under `unstable`).
fn helper(case: &Value, m: &mut Map<String, Value>) {
    let f = get_str(case, "f").to_string();
    let b = get_bytes(case, "b");
    m.insert("b".into(), jbytes(&b));
    let r = guarded(|| -> Vec<u8> {
        match f.as_str() {
            "trim" => c::trim_ascii(&b).to_vec(),
            "trim_start" => c::trim_ascii_start(&b).to_vec(),
            "trim_end" => c::trim_ascii_end(&b).to_vec(),
            "hex" => c::u8_to_upper_hex(b[0]).to_vec(),
            "unres" => vec![c::is_rfc3986_unreserved(b[0]) as u8],
            "latin1" => c::latin1_to_string(&b).into_bytes(),
            _ => unreachable!(),
        }
    });
    match r {
        Ok(out) => res_ok(m, &out),
        Err(p) => res_other(m, "panic", &p),
    }
}
