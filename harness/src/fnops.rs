//! Function-level operations: one public (unstable-feature) function of the library per case.

use crate::util::*;
use scratchstack_aws_signature::canonical as c;
use serde_json::{json, Map, Value};

pub fn run(op: &str, case: &Value) -> Value {
    let mut m: Map<String, Value> = case.as_object().cloned().unwrap_or_default();
    match op {
        "path" => {
            let p = get_bytes(case, "p");
            let s3 = get_bool(case, "s3");
            m.insert("p".into(), jbytes(&p));
            m.insert("s3".into(), json!(s3));
            match std::str::from_utf8(&p) {
                Err(_) => res_other(&mut m, "inadm", "not utf-8"),
                Ok(s) => match guarded(|| c::canonicalize_uri_path(s, s3)) {
                    Ok(Ok(out)) => res_ok(&mut m, out.as_bytes()),
                    Ok(Err(e)) => res_err(&mut m, &e),
                    Err(p) => res_other(&mut m, "panic", &p),
                },
            }
        }
        "query" => {
            let q = get_bytes(case, "q");
            m.insert("q".into(), jbytes(&q));
            match std::str::from_utf8(&q) {
                Err(_) => res_other(&mut m, "inadm", "not utf-8"),
                Ok(s) => {
                    match guarded(|| c::query_string_to_normalized_map(s).map(|mp| c::canonicalize_query_to_string(&mp)))
                    {
                        Ok(Ok(out)) => res_ok(&mut m, out.as_bytes()),
                        Ok(Err(e)) => res_err(&mut m, &e),
                        Err(p) => res_other(&mut m, "panic", &p),
                    }
                }
            }
        }
        "elem" => {
            let el = get_bytes(case, "el");
            let plus = get_bool(case, "plus");
            m.insert("el".into(), jbytes(&el));
            m.insert("plus".into(), json!(plus));
            match std::str::from_utf8(&el) {
                Err(_) => res_other(&mut m, "inadm", "not utf-8"),
                Ok(s) => {
                    let r = guarded(|| {
                        if plus {
                            c::normalize_query_string_element(s)
                        } else {
                            c::normalize_uri_path_component(s)
                        }
                    });
                    match r {
                        Ok(Ok(out)) => res_ok(&mut m, out.as_bytes()),
                        Ok(Err(e)) => res_err(&mut m, &e),
                        Err(p) => res_other(&mut m, "panic", &p),
                    }
                }
            }
        }
        _ => unreachable!(),
    }
    Value::Object(m)
}
