//! Seeded proposal of inputs (campaign R). Proposals only: no expectations, no canonical forms.

use crate::util::*;
use serde_json::json;
use std::io::Write;

const TOKENS: &[&str] = &[
    "a", "b", "Z", "0", "9", "-", ".", "_", "~", "..", "%2E", "%2e", "%2F", "%2f", "%20", "%25", "%41", "%7e", "%7E",
    "%C3%A9", "%c3%a9", "%00", "%FF", "%ff", "!", "*", "'", "(", ")", ";", ":", "@", "$", ",", "=", "&", "+", " ",
    "%zz", "%4", "%", "%%", "%g0", "%0g", "\u{e9}", "\u{20ac}", "\u{1f600}", "X-Amz-Signature", "X-Amz-", "a1", "a-",
    "a.", "A", "aa",
];

fn rand_utf8_char(r: &mut Rng) -> String {
    match r.below(10) {
        0..=5 => ((0x21 + r.below(0x5e)) as u8 as char).to_string(),
        6 => (r.below(0x20) as u8 as char).to_string(),
        7 => char::from_u32(0x80 + r.below(0x780) as u32).unwrap_or('x').to_string(),
        8 => char::from_u32(0x800 + r.below(0xD000) as u32).unwrap_or('y').to_string(),
        _ => char::from_u32(0x10000 + r.below(0xFFFF) as u32).unwrap_or('z').to_string(),
    }
}

fn rand_escape(r: &mut Rng) -> String {
    let b = r.below(256);
    match r.below(3) {
        0 => format!("%{:02X}", b),
        1 => format!("%{:02x}", b),
        _ => {
            let s = format!("%{:02X}", b);
            let mut o = String::new();
            for ch in s.chars() {
                if r.chance(1, 2) {
                    o.push(ch.to_ascii_lowercase())
                } else {
                    o.push(ch)
                }
            }
            o
        }
    }
}

fn rand_piece(r: &mut Rng, forbid: &[char]) -> String {
    let mut s = String::new();
    let n = r.below(6);
    for _ in 0..n {
        let t = match r.below(4) {
            0 => r.pick(TOKENS).to_string(),
            1 => rand_escape(r),
            _ => rand_utf8_char(r),
        };
        s.push_str(&t);
    }
    s.chars().filter(|c| !forbid.contains(c)).collect()
}

pub fn rand_path(r: &mut Rng) -> String {
    let mut p = String::new();
    if !r.chance(1, 40) {
        p.push('/');
    }
    let segs = r.below(7);
    for i in 0..segs {
        if i > 0 {
            p.push('/');
        }
        match r.below(10) {
            0 => p.push('.'),
            1 => p.push_str(".."),
            2 => {}
            3 => p.push_str(*r.pick(&["%2e", "%2E%2e", ".%2E", "%2e."])),
            _ => p.push_str(&rand_piece(r, &['/'])),
        }
    }
    if r.chance(1, 4) {
        p.push('/');
    }
    p
}

pub fn rand_query(r: &mut Rng) -> String {
    let mut q = String::new();
    let n = r.below(7);
    for i in 0..n {
        if i > 0 {
            q.push('&');
            if r.chance(1, 8) {
                q.push('&');
            }
        }
        let name = if r.chance(1, 3) {
            r.pick(&["a", "a1", "a-", "a.", "a%3D", "%61", "A", "", "X-Amz-Signature", "X%2DAmz-Signature", "b"])
                .to_string()
        } else {
            rand_piece(r, &['&', '='])
        };
        q.push_str(&name);
        if !r.chance(1, 6) {
            q.push('=');
            q.push_str(&rand_piece(r, &['&']));
        }
    }
    q
}

pub fn generate(family: &str, seed: u64, n: usize, w: &mut impl Write) -> usize {
    let mut r = Rng::new(seed ^ 0x5eed);
    let mut cnt = 0;
    for _ in 0..n {
        let v = match family {
            "path" => json!({"op": "path", "p": jbytes(rand_path(&mut r).as_bytes()), "s3": r.chance(1, 2)}),
            "query" => json!({"op": "query", "q": jbytes(rand_query(&mut r).as_bytes())}),
            "elem" => json!({"op": "elem", "el": jbytes(rand_piece(&mut r, &[]).as_bytes()), "plus": r.chance(1, 2)}),
            _ => {
                eprintln!("unknown family {family}");
                std::process::exit(2);
            }
        };
        serde_json::to_writer(&mut *w, &v).unwrap();
        w.write_all(b"\n").unwrap();
        cnt += 1;
    }
    cnt
}
