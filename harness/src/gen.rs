//! Seeded proposal of inputs (campaign R). Proposals only: no expectations, no canonical forms.

use crate::util::*;
use serde_json::json;
use std::io::Write;

const TOKENS: &[&str] = &[
    "a", "b", "Z", "0", "9", "-", ".", "_", "~", "..", "%2E", "%2e", "%2F", "%2f", "%20", "%25", "%41", "%7e", "%7E",
    "%C3%A9", "%c3%a9", "%00", "%FF", "%ff", "!", "*", "'", "(", ")", ";", ":", "@", "$", ",", "=", "&", "+", " ",
    "%zz", "%4", "%", "%%", "%g0", "%0g", "\u{e9}", "\u{20ac}", "\u{1f600}", "X-Amz-Signature", "X-Amz-", "a1", "a-",
    "a.", "A", "aa",
];

fn rand_utf8_char(r: &mut Rng) -> String {
    match r.below(10) {
        0..=5 => ((0x21 + r.below(0x5e)) as u8 as char).to_string(),
        6 => (r.below(0x20) as u8 as char).to_string(),
        7 => char::from_u32(0x80 + r.below(0x780) as u32).unwrap_or('x').to_string(),
        8 => char::from_u32(0x800 + r.below(0xD000) as u32).unwrap_or('y').to_string(),
        _ => char::from_u32(0x10000 + r.below(0xFFFF) as u32).unwrap_or('z').to_string(),
    }
}

fn rand_escape(r: &mut Rng) -> String {
    let b = r.below(256);
    match r.below(3) {
        0 => format!("%{:02X}", b),
        1 => format!("%{:02x}", b),
        _ => {
            let s = format!("%{:02X}", b);
            let mut o = String::new();
            for ch in s.chars() {
                if r.chance(1, 2) {
                    o.push(ch.to_ascii_lowercase())
                } else {
                    o.push(ch)
                }
            }
            o
        }
    }
}

fn rand_piece(r: &mut Rng, forbid: &[char]) -> String {
    let mut s = String::new();
    let n = r.below(6);
    for _ in 0..n {
        let t = match r.below(4) {
            0 => r.pick(TOKENS).to_string(),
            1 => rand_escape(r),
            _ => rand_utf8_char(r),
        };
        s.push_str(&t);
    }
    s.chars().filter(|c| !forbid.contains(c)).collect()
}

pub fn rand_path(r: &mut Rng) -> String {
    let mut p = String::new();
    if !r.chance(1, 40) {
        p.push('/');
    }
    let segs = r.below(7);
    for i in 0..segs {
        if i > 0 {
            p.push('/');
        }
        match r.below(10) {
            0 => p.push('.'),
            1 => p.push_str(".."),
            2 => {}
            3 => p.push_str(*r.pick(&["%2e", "%2E%2e", ".%2E", "%2e."])),
            _ => p.push_str(&rand_piece(r, &['/'])),
        }
    }
    if r.chance(1, 4) {
        p.push('/');
    }
    p
}

pub fn rand_query(r: &mut Rng) -> String {
    let mut q = String::new();
    let n = r.below(7);
    for i in 0..n {
        if i > 0 {
            q.push('&');
            if r.chance(1, 8) {
                q.push('&');
            }
        }
        let name = if r.chance(1, 3) {
            r.pick(&["a", "a1", "a-", "a.", "a%3D", "%61", "A", "", "X-Amz-Signature", "X%2DAmz-Signature", "b"])
                .to_string()
        } else {
            rand_piece(r, &['&', '='])
        };
        q.push_str(&name);
        if !r.chance(1, 6) {
            q.push('=');
            q.push_str(&rand_piece(r, &['&']));
        }
    }
    q
}

fn days_in_month(y: i64, m: i64) -> i64 {
    match m {
        1 | 3 | 5 | 7 | 8 | 10 | 12 => 31,
        4 | 6 | 9 | 11 => 30,
        _ => {
            if (y % 4 == 0 && y % 100 != 0) || y % 400 == 0 {
                29
            } else {
                28
            }
        }
    }
}

pub fn rand_date(r: &mut Rng) -> (i64, i64, i64) {
    let y = match r.below(4) {
        0 => 1 + r.below(9999) as i64,
        1 => *r.pick(&[1, 999, 1000, 1900, 2000, 2100, 9999]),
        _ => 2000 + r.below(40) as i64,
    };
    let m = 1 + r.below(12) as i64;
    let d = if r.chance(1, 4) { days_in_month(y, m) } else { 1 + r.below(days_in_month(y, m) as usize) as i64 };
    (y, m, d)
}

/// a syntactically plausible timestamp (any of the renderings), then possibly one mutation
pub fn rand_ts(r: &mut Rng) -> String {
    let (y, m, d) = rand_date(r);
    let ext_d = r.chance(1, 2);
    let ext_t = if r.chance(1, 8) { !ext_d } else { ext_d };
    let (hh, mi, ss) = (r.below(24), r.below(60), r.below(60));
    let mut s = if ext_d { format!("{:04}-{:02}-{:02}T", y, m, d) } else { format!("{:04}{:02}{:02}T", y, m, d) };
    if ext_t {
        s.push_str(&format!("{:02}:{:02}:{:02}", hh, mi, ss));
    } else {
        s.push_str(&format!("{:02}{:02}{:02}", hh, mi, ss));
    }
    if r.chance(1, 3) {
        s.push(if r.chance(1, 2) { '.' } else { ',' });
        for _ in 0..(1 + r.below(12)) {
            s.push((b'0' + r.below(10) as u8) as char);
        }
    }
    if r.chance(1, 2) {
        s.push('Z');
    } else {
        s.push(if r.chance(1, 2) { '+' } else { '-' });
        let oh = if r.chance(1, 6) { r.below(30) } else { r.below(15) };
        let om = if r.chance(1, 8) { r.below(100) } else { *r.pick(&[0usize, 15, 30, 45, 59]) };
        if r.chance(1, 2) {
            s.push_str(&format!("{:02}:{:02}", oh, om));
        } else {
            s.push_str(&format!("{:02}{:02}", oh, om));
        }
    }
    if r.chance(1, 2) {
        let mut cs: Vec<char> = s.chars().collect();
        let alphabet: Vec<char> = "0123456789-:TZ+.,tz \u{0662}\u{ff12}\u{0967}9".chars().collect();
        let pos = r.below(cs.len().max(1));
        match r.below(5) {
            0 => cs[pos] = *r.pick(&alphabet),
            1 => {
                cs.remove(pos);
            }
            2 => cs.insert(pos, *r.pick(&alphabet)),
            3 => {
                let c = cs[pos];
                cs.insert(pos, c);
            }
            _ => {
                // bump one digit
                if cs[pos].is_ascii_digit() {
                    cs[pos] = (b'0' + ((cs[pos] as u8 - b'0' + 1 + r.below(8) as u8) % 10)) as char;
                }
            }
        }
        s = cs.into_iter().collect();
    }
    s
}

fn rand_name(r: &mut Rng) -> String {
    match r.below(6) {
        0 => String::new(),
        1 => "us-east-1".into(),
        2 => "\u{e9}t\u{e9}".into(),
        3 => "s3".into(),
        _ => {
            let n = r.below(20);
            (0..n).map(|_| rand_utf8_char(r)).collect()
        }
    }
}

fn pick_s(r: &mut Rng, xs: &[&str]) -> String {
    r.pick(xs).to_string()
}

fn perturb(r: &mut Rng, s: &str) -> String {
    // one random byte-level edit with small probability
    if !r.chance(1, 6) || s.is_empty() {
        return s.to_string();
    }
    let mut cs: Vec<char> = s.chars().collect();
    let pos = r.below(cs.len());
    match r.below(4) {
        0 => {
            cs.remove(pos);
        }
        1 => cs.insert(pos, *r.pick(&['/', ',', '=', ';', ' ', '%', 'a', 'Z', '0', '\t', '\u{e9}'])),
        2 => cs[pos] = *r.pick(&['/', ',', '=', ';', ' ', '%', 'a', 'Z', '0', '+']),
        _ => {
            let c = cs[pos];
            cs.insert(pos, c)
        }
    }
    cs.into_iter().collect()
}

fn hex64(r: &mut Rng) -> String {
    (0..64).map(|_| char::from_digit(r.below(16) as u32, 16).unwrap()).collect()
}

/// A random wire-level request, biased towards the structure (and the dictionary tokens of fuzz/dict.txt)
/// that lets it travel deep into the pipeline. Signatures are never valid (no expectation is implied).
fn rand_req(r: &mut Rng, id: usize) -> serde_json::Value {
    let method = pick_s(r, &["GET", "POST", "PUT", "DELETE", "HEAD", "M-SEARCH", "PATCH"]);
    let regions = ["us-east-1", "us-west-2", "eu", ""];
    let services = ["service", "s3", "iam"];
    let region = pick_s(r, &regions);
    let service = pick_s(r, &services);
    let base_day = 735840i64; // 2015-08-30
    let now_sec = 45360i64;
    // request time: usually near the server time, sometimes around the window edges
    let off: i64 = match r.below(6) {
        0 => -900 + (r.below(5) as i64 - 2),
        1 => 900 + (r.below(5) as i64 - 2),
        2 => (r.below(4000) as i64) - 2000,
        _ => (r.below(600) as i64) - 300,
    };
    let t = now_sec + off;
    let (dd, ts) = if t < 0 { (-1, t + 86400) } else if t >= 86400 { (1, t - 86400) } else { (0, t) };
    let day = 30 + dd;
    let stamp = if r.chance(1, 8) {
        rand_ts(r)
    } else if r.chance(1, 3) {
        format!("2015-08-{:02}T{:02}:{:02}:{:02}Z", day, ts / 3600, (ts % 3600) / 60, ts % 60)
    } else {
        format!("201508{:02}T{:02}{:02}{:02}Z", day, ts / 3600, (ts % 3600) / 60, ts % 60)
    };
    let cdate = if r.chance(1, 10) { "20150829".to_string() } else { format!("201508{:02}", day) };
    let cred_region = if r.chance(1, 8) { pick_s(r, &regions) } else { region.clone() };
    let cred_service = if r.chance(1, 8) { pick_s(r, &services) } else { service.clone() };
    let term = if r.chance(1, 12) { pick_s(r, &["aws4_reques", "AWS4_REQUEST", "", "aws4_request/x"]) } else { "aws4_request".to_string() };
    let cred = perturb(r, &format!("AKIDEXAMPLE/{}/{}/{}/{}", cdate, cred_region, cred_service, term));
    let mut headers: Vec<(String, Vec<u8>)> = Vec::new();
    if !r.chance(1, 15) {
        headers.push(("Host".into(), b"example.amazonaws.com".to_vec()));
    }
    let extra_names = ["x-amz-target", "x-amz-content-sha256", "x-amz-meta-a", "content-type", "etag", "x-req", "my-header"];
    let mut present: Vec<String> = vec!["host".into()];
    for n in extra_names.iter() {
        if r.chance(1, 4) {
            let v = match *n {
                "content-type" => pick_s(r, &["application/x-www-form-urlencoded", "application/x-www-form-urlencoded; charset=utf-8",
                                               "application/x-www-form-urlencoded; charset=foobar", "text/plain", "application/json",
                                               "application/x-www-form-urlencoded;charset=latin1", ""]),
                _ => rand_piece(r, &[]).chars().filter(|c| (*c as u32) >= 0x20 && (*c as u32) != 0x7f).collect(),
            };
            headers.push((n.to_string(), v.into_bytes()));
            present.push(n.to_string());
        }
    }
    let carrier = r.below(10);
    let alg = if r.chance(1, 10) { pick_s(r, &["AWS4-HMAC-SHA512", "aws4-hmac-sha256", "Basic", ""]) } else { "AWS4-HMAC-SHA256".to_string() };
    let mut signed: Vec<String> = present.iter().filter(|_| r.chance(3, 4)).cloned().collect();
    let mut path = if r.chance(1, 3) { rand_path(r) } else { pick_s(r, &["/", "/a/b", "/a%20b/", "/x/../y"]) };
    path = path.chars().filter(|c| !"?#".contains(*c) && (*c as u32) > 0x20 && (*c as u32) != 0x7f).collect();
    if !path.starts_with('/') {
        path.insert(0, '/');
    }
    let mut query = if r.chance(1, 2) { rand_query(r) } else { String::new() };
    query = query.chars().filter(|c| *c != '#' && (*c as u32) > 0x20 && (*c as u32) != 0x7f).collect();
    let token = if r.chance(1, 5) { Some("AQoDYXdzEPT//////////wEXAMPLE+tok/en==".to_string()) } else { None };
    let sig = if r.chance(1, 5) { rand_piece(r, &[' ', ',']) } else { hex64(r) };
    if carrier < 6 {
        // Authorization header
        if !r.chance(1, 12) {
            headers.push((if r.chance(1, 6) { "Date".into() } else { "X-Amz-Date".into() }, stamp.clone().into_bytes()));
            signed.push("x-amz-date".into());
        }
        if let Some(t) = &token {
            headers.push(("X-Amz-Security-Token".into(), t.clone().into_bytes()));
        }
        signed.sort();
        signed.dedup();
        let sep = pick_s(r, &[", ", ",", " , ", ",  "]);
        let mut parts: Vec<String> = Vec::new();
        if !r.chance(1, 12) {
            parts.push(format!("Credential={}", cred));
        }
        if !r.chance(1, 12) {
            parts.push(format!("SignedHeaders={}", perturb(r, &signed.join(";"))));
        }
        if !r.chance(1, 12) {
            parts.push(format!("Signature={}", sig));
        }
        if r.chance(1, 10) {
            parts.push(pick_s(r, &["bogus", "Credential=x", "=", "k=v"]));
        }
        let val: String = format!("{} {}", alg, parts.join(&sep)).chars().filter(|c| (*c as u32) >= 0x20 && (*c as u32) != 0x7f).collect();
        let val_bytes: Vec<u8> = val.chars().map(|c| if (c as u32) < 256 { c as u32 as u8 } else { b'?' }).collect();
        headers.push(("Authorization".into(), val_bytes));
        if r.chance(1, 15) {
            query.push_str("&X-Amz-Algorithm=AWS4-HMAC-SHA256");
        }
    } else if carrier < 9 {
        signed.sort();
        signed.dedup();
        let enc = |s: &str| -> String {
            s.bytes().map(|b| if b.is_ascii_alphanumeric() || b"-._~".contains(&b) { (b as char).to_string() } else { format!("%{:02X}", b) }).collect()
        };
        let mut qs: Vec<String> = Vec::new();
        qs.push(format!("X-Amz-Algorithm={}", enc(&alg)));
        if !r.chance(1, 12) {
            qs.push(format!("X-Amz-Credential={}", enc(&cred)));
        }
        if !r.chance(1, 12) {
            qs.push(format!("X-Amz-Date={}", enc(&stamp)));
        }
        if let Some(t) = &token {
            qs.push(format!("X-Amz-Security-Token={}", enc(t)));
        }
        if !r.chance(1, 12) {
            qs.push(format!("X-Amz-SignedHeaders={}", enc(&signed.join(";"))));
        }
        if !r.chance(1, 12) {
            qs.push(format!("X-Amz-Signature={}", enc(&sig)));
        }
        if !query.is_empty() {
            query.push('&');
        }
        query.push_str(&qs.join("&"));
    }
    let uri = if query.is_empty() { path } else { format!("{}?{}", path, query) };
    let body: Vec<u8> = match r.below(5) {
        0 => Vec::new(),
        1 => b"a=1&b=2".to_vec(),
        2 => rand_query(r).into_bytes(),
        3 => (0..r.below(40)).map(|_| r.below(256) as u8).collect(),
        _ => b"hello".to_vec(),
    };
    let lists = |r: &mut Rng, xs: &[&str]| -> Vec<serde_json::Value> {
        xs.iter().filter(|_| r.chance(1, 4)).map(|s| jbytes(s.as_bytes())).collect()
    };
    let outc = ["ok", "ok", "ok", "sigerr", "foreign"];
    json!({
        "op": "req", "id": ["reqfuzz", id], "method": jbytes(method.as_bytes()), "uri": jbytes(uri.as_bytes()), "version": "HTTP/1.1",
        "headers": headers.iter().map(|(n, v)| json!([jbytes(n.as_bytes()), jbytes(v)])).collect::<Vec<_>>(),
        "body": jbytes(&body),
        "cfg": {"region": jbytes(region.as_bytes()), "service": jbytes(service.as_bytes()), "now": [base_day, now_sec, 0],
                "s3": r.chance(1, 3), "fold": r.chance(1, 2),
                "always": lists(r, &["Content-Type", "x-req"]), "ifin": lists(r, &["ETag", "X-Opt"]), "prefix": lists(r, &["X-Amz", "x-a"]),
                "reqimpl": pick_s(r, &["slice", "vec", "vecadd"]), "bodykind": "bytes"},
        "script": {"readyIn": r.below(3), "ready": pick_s(r, &outc), "pendIn": r.below(3), "answer": pick_s(r, &outc),
                   "errKind": pick_s(r, &["InvalidClientTokenId", "ExpiredToken", "SignatureDoesNotMatch", "InternalServiceError"]),
                   "principal": id as i64 % 1000, "secret": jbytes(b"wJalrXUtnFEMI/K7MDENG+bPxRfiCYEXAMPLEKEY")},
        "sign": "none"
    })
}

pub fn generate(family: &str, seed: u64, n: usize, w: &mut impl Write) -> usize {
    let mut r = Rng::new(seed ^ 0x5eed);
    let mut cnt = 0;
    for i in 0..n {
        let v = match family {
            "reqfuzz" => rand_req(&mut r, i),
            "logical" => {
                // a logical request for the reference signer: only well-formed components (the signer is honest),
                // over all byte values the http crate admits; literal '+' is kept out of paths (known finding D7)
                let clean = |s: String, extra: &str| -> String {
                    s.chars().filter(|c| (*c as u32) > 0x20 && (*c as u32) != 0x7f && !"#?+".contains(*c) && !extra.contains(*c)).collect()
                };
                let mut path = String::from("/");
                for k in 0..r.below(4) {
                    if k > 0 {
                        path.push('/');
                    }
                    let seg = match r.below(6) {
                        0 => rand_escape(&mut r),
                        1 => r.pick(&["a", "b-c", "~x", "%7Ey", "%C3%A9", "*", "a=b", "a&b", "x.y", ""]).to_string(),
                        _ => clean(rand_piece(&mut r, &['/', '%']), ""),
                    };
                    path.push_str(&seg);
                }
                let mut query = String::new();
                for k in 0..r.below(5) {
                    if k > 0 {
                        query.push('&');
                    }
                    let name = if r.chance(1, 2) { r.pick(&["a", "a1", "a-", "a.", "A", "b", "key", "key2"]).to_string() } else { clean(rand_piece(&mut r, &['&', '=', '%']), "") };
                    query.push_str(&name);
                    if !r.chance(1, 6) {
                        query.push('=');
                        let v = if r.chance(1, 3) { rand_escape(&mut r) } else { clean(rand_piece(&mut r, &['&', '%']), "") };
                        query.push_str(&v);
                    }
                }
                let mut hdrs: Vec<serde_json::Value> = Vec::new();
                for _ in 0..r.below(4) {
                    let name = r.pick(&["X-Amz-Meta-A", "x-amz-meta-a", "My-Header", "Content-Language", "X-B", "x-c"]).to_string();
                    let n = r.below(10);
                    let v: Vec<u8> = (0..n).map(|_| match r.below(6) { 0 | 1 => b' ', 2 => b'\t', 3 => 0x80 + r.below(0x80) as u8, _ => 0x21 + r.below(0x5e) as u8 }).collect();
                    hdrs.push(json!([jbytes(name.as_bytes()), jbytes(&v)]));
                }
                let body: Vec<u8> = match r.below(4) { 0 => Vec::new(), 1 => b"a=1&b=2".to_vec(), _ => (0..r.below(30)).map(|_| r.below(256) as u8).collect() };
                json!({"method": jbytes(r.pick(&["GET", "POST", "PUT", "DELETE"]).as_bytes()), "path": jbytes(path.as_bytes()),
                       "query": jbytes(query.as_bytes()), "hdrs": hdrs, "body": jbytes(&body),
                       "carrier": if r.chance(1, 2) { "hdr" } else { "qry" }, "hasToken": r.chance(1, 3),
                       "tsoff": (r.below(1801) as i64) - 900, "tsstyle": 1 + r.below(7), "s3": r.chance(1, 3), "fold": false,
                       "principal": (i % 1000) as i64,
                       "mut": r.pick(&["none", "none", "spell", "spell", "uribyte", "hdrbyte", "body", "method"]), "pos": r.below(100000)})
            }
            "path" => json!({"op": "path", "p": jbytes(rand_path(&mut r).as_bytes()), "s3": r.chance(1, 2)}),
            "query" => json!({"op": "query", "q": jbytes(rand_query(&mut r).as_bytes())}),
            "elem" => json!({"op": "elem", "el": jbytes(rand_piece(&mut r, &[]).as_bytes()), "plus": r.chance(1, 2)}),
            "ts" => json!({"op": "ts", "s": jbytes(rand_ts(&mut r).as_bytes())}),
            "hval" => {
                let n = r.below(14);
                let v: Vec<u8> = (0..n)
                    .map(|_| match r.below(8) {
                        0..=2 => b' ',
                        3 => b'\t',
                        4 => b'a',
                        5 => b',',
                        6 => 0x80 + r.below(0x80) as u8,
                        _ => 0x21 + r.below(0x5e) as u8,
                    })
                    .collect();
                json!({"op": "hval", "v": jbytes(&v)})
            }
            "key" => {
                let n = if r.chance(1, 3) { *r.pick(&[0usize, 1, 39, 40, 41, 44, 60, 61]) } else { r.below(50) };
                let mut sec = String::new();
                while sec.len() < n {
                    let c = if r.chance(1, 10) { rand_utf8_char(&mut r) } else { ((0x21 + r.below(0x5e)) as u8 as char).to_string() };
                    if sec.len() + c.len() <= n {
                        sec.push_str(&c);
                    } else {
                        sec.push('x');
                    }
                }
                let (y, m, d) = rand_date(&mut r);
                let cap = if r.chance(2, 3) { 44 } else { *r.pick(&[0i64, 3, 4, 5, 8, 44, 64, 100]) };
                json!({"op": "key", "secret": jbytes(sec.as_bytes()), "cap": cap, "date": [y, m, d],
                       "region": jbytes(rand_name(&mut r).as_bytes()), "service": jbytes(rand_name(&mut r).as_bytes())})
            }
            _ => {
                eprintln!("unknown family {family}");
                std::process::exit(2);
            }
        };
        serde_json::to_writer(&mut *w, &v).unwrap();
        w.write_all(b"\n").unwrap();
        cnt += 1;
    }
    cnt
}
