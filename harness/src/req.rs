//! Whole-request operation: drives sigv4_validate_request end to end with an instrumented,
//! scripted key provider, then pushes the same request stage by stage through the crate's
//! `unstable` API. Emits the events Trace_Req.tla validates.

use crate::sha::{hex, hmac_sha256, sha256};
use crate::util::*;
use bytes::Bytes;
use chrono::{DateTime, Datelike, Duration, NaiveDate, NaiveTime, Timelike, Utc};
use scratchstack_aws_signature::{
    auth::SigV4Authenticator,
    canonical::CanonicalRequest,
    principal::{Principal, SessionData, SessionValue, User},
    sigv4_validate_request, GetSigningKeyRequest, GetSigningKeyResponse, KSecretKey, SignatureError, SignatureOptions,
    SignedHeaderRequirements, SliceSignedHeaderRequirements, VecSignedHeaderRequirements,
};
use serde_json::{json, Map, Value};
use std::borrow::Cow;
use std::future::Future;
use std::pin::Pin;
use std::str::FromStr;
use std::sync::{Arc, Mutex};
use std::task::{Context, Poll, Waker};
use tower::BoxError;

const PLACEHOLDER: &[u8] = b"{SIG}";
const NONCE: &[u8] = b"NONCE0000";
pub const PROVIDER_MSG: &str = "provider says no";

#[derive(Clone)]
pub struct Script {
    pub ready_in: u64,
    pub ready: String,
    pub pend_in: u64,
    pub answer: String,
    pub err_kind: String,
    pub principal: i64,
    pub secret: Vec<u8>,
}

impl Script {
    pub fn from_json(v: &Value) -> Script {
        Script {
            ready_in: match v.get("readyIn").and_then(|x| x.as_i64()).unwrap_or(0) {
                n if n < 0 => u64::MAX, // Pending forever
                n => n as u64,
            },
            ready: get_str(v, "ready").to_string(),
            pend_in: match v.get("pendIn").and_then(|x| x.as_i64()).unwrap_or(0) {
                n if n < 0 => u64::MAX,
                n => n as u64,
            },
            answer: get_str(v, "answer").to_string(),
            err_kind: get_str(v, "errKind").to_string(),
            principal: get_i64(v, "principal"),
            secret: get_bytes(v, "secret"),
        }
    }
    pub fn to_json(&self) -> Value {
        let show = |n: u64| if n == u64::MAX { -1i64 } else { n as i64 };
        json!({"readyIn": show(self.ready_in), "ready": self.ready, "pendIn": show(self.pend_in), "answer": self.answer,
               "errKind": self.err_kind, "principal": self.principal, "secret": jbytes(&self.secret)})
    }
}

#[derive(Debug)]
struct ForeignError;
impl std::fmt::Display for ForeignError {
    fn fmt(&self, f: &mut std::fmt::Formatter<'_>) -> std::fmt::Result {
        f.write_str("key store unreachable")
    }
}
impl std::error::Error for ForeignError {}

pub fn sig_error(kind: &str, msg: &str) -> SignatureError {
    let m = msg.to_string();
    match kind {
        "ExpiredToken" => SignatureError::ExpiredToken(m),
        "InvalidClientTokenId" => SignatureError::InvalidClientTokenId(m),
        "SignatureDoesNotMatch" => SignatureError::SignatureDoesNotMatch(Some(m)),
        "InvalidBodyEncoding" => SignatureError::InvalidBodyEncoding(m),
        "InvalidContentType" => SignatureError::InvalidContentType(m),
        "InvalidRequestMethod" => SignatureError::InvalidRequestMethod(m),
        "IncompleteSignature" => SignatureError::IncompleteSignature(m),
        "InvalidURIPath" => SignatureError::InvalidURIPath(m),
        "MalformedQueryString" => SignatureError::MalformedQueryString(m),
        "MissingAuthenticationToken" => SignatureError::MissingAuthenticationToken(m),
        "IO" => SignatureError::IO(std::io::Error::new(std::io::ErrorKind::Other, m)),
        // a provider's own "internal error" that wraps another SignatureError: it is the provider's verdict and passes
        // through as it is (500), it is not to be unwrapped into the inner error
        "InternalServiceError" => SignatureError::InternalServiceError(Box::new(SignatureError::InvalidClientTokenId(m))),
        _ => SignatureError::InternalServiceError(Box::new(ForeignError)),
    }
}

fn script_err(kind: &str, which: &str) -> BoxError {
    if which == "sigerr" {
        Box::new(sig_error(kind, PROVIDER_MSG))
    } else {
        // foreign error types: a custom error, or std::io::Error of a "transient" kind
        match kind {
            "io_timedout" => Box::new(std::io::Error::new(std::io::ErrorKind::TimedOut, "timed out")),
            "io_interrupted" => Box::new(std::io::Error::new(std::io::ErrorKind::Interrupted, "interrupted")),
            "io_wouldblock" => Box::new(std::io::Error::new(std::io::ErrorKind::WouldBlock, "would block")),
            "io_reset" => Box::new(std::io::Error::new(std::io::ErrorKind::ConnectionReset, "reset")),
            // errors a provider typically propagates with `?`: the crate's own key error, std parse/format errors, a message
            "own_keytoolong" => {
                use std::str::FromStr;
                match scratchstack_aws_signature::KSecretKey::<4>::from_str("much too long for four bytes") {
                    Err(e) => Box::new(e),
                    Ok(_) => Box::new(ForeignError),
                }
            }
            "fmt" => Box::new(std::fmt::Error),
            "parse_int" => Box::new("x".parse::<i32>().unwrap_err()),
            "message" => "key store unavailable".into(),
            _ => Box::new(ForeignError),
        }
    }
}

type Events = Arc<Mutex<Vec<Value>>>;

/// The caller-supplied key provider: follows the script, records every interaction.
pub struct Provider {
    pub script: Script,
    pub ready_left: u64,
    pub events: Events,
}

pub struct ProviderFuture {
    pend_left: u64,
    outcome: Option<Result<GetSigningKeyResponse, BoxError>>,
    events: Events,
}

impl Future for ProviderFuture {
    type Output = Result<GetSigningKeyResponse, BoxError>;
    fn poll(mut self: Pin<&mut Self>, cx: &mut Context<'_>) -> Poll<Self::Output> {
        if self.pend_left > 0 {
            if self.pend_left != u64::MAX {
                self.pend_left -= 1;
            }
            self.events.lock().unwrap().push(json!({"ev": "PollFuture", "ret": "pending"}));
            cx.waker().wake_by_ref();
            return Poll::Pending;
        }
        match self.outcome.take() {
            Some(Ok(r)) => {
                self.events.lock().unwrap().push(json!({"ev": "PollFuture", "ret": "ok"}));
                Poll::Ready(Ok(r))
            }
            Some(Err(e)) => {
                self.events.lock().unwrap().push(json!({"ev": "PollFuture", "ret": "err"}));
                Poll::Ready(Err(e))
            }
            None => {
                self.events.lock().unwrap().push(json!({"ev": "PollFuture", "ret": "polled-after-completion"}));
                Poll::Pending
            }
        }
    }
}

/// The principal the scripted provider supplies for number n: always the IAM user "user<n>", plus - depending on n -
/// identities of the other kinds, so that a conversion that keeps only one identity, or only users, shows.
pub fn principal_of(n: i64) -> Principal {
    use scratchstack_aws_signature::principal::{AssumedRole, CanonicalUser, PrincipalIdentity, RootUser, Service};
    let mut ids: Vec<PrincipalIdentity> = vec![User::new("aws", "123456789012", "/", &format!("user{}", n)).unwrap().into()];
    match n.rem_euclid(4) {
        1 => ids.push(AssumedRole::new("aws", "123456789012", "role", &format!("sess{}", n)).unwrap().into()),
        2 => {
            ids.push(RootUser::new("aws", "123456789012").unwrap().into());
            ids.push(CanonicalUser::new(&"9".repeat(64)).unwrap().into());
        }
        3 => ids.push(Service::new("s3", None, "amazonaws.com").unwrap().into()),
        _ => {}
    }
    Principal::new(ids)
}

pub fn principal_number(p: &Principal) -> i64 {
    let n = p
        .as_slice()
        .iter()
        .filter_map(|i| i.as_user())
        .filter_map(|u| u.user_name().strip_prefix("user").and_then(|s| s.parse::<i64>().ok()))
        .next();
    match n {
        Some(n) if *p == principal_of(n) => n,
        _ => -1,
    }
}

/// What the scripted provider supplies for principal number n: one entry of every SessionValue type (incl. Null and
/// empty values), so that a conversion that filters, defaults or re-encodes any of them shows.
pub fn session_of(n: i64) -> SessionData {
    let mut sd = SessionData::new();
    sd.insert("n", SessionValue::Integer(n));
    sd.insert("null", SessionValue::Null);
    sd.insert("bin", SessionValue::Binary(vec![0, 255, 10]));
    sd.insert("empty-bin", SessionValue::Binary(Vec::new()));
    sd.insert("flag", SessionValue::Bool(n % 2 == 0));
    sd.insert("zero", SessionValue::Integer(0));
    sd.insert("s", SessionValue::String(format!("value {}", n)));
    sd.insert("empty-s", SessionValue::String(String::new()));
    sd.insert("ip", SessionValue::IpAddr(std::net::IpAddr::V4(std::net::Ipv4Addr::new(192, 0, 2, (n % 250) as u8))));
    sd.insert("ts", SessionValue::Timestamp(chrono::DateTime::<Utc>::from_timestamp(1_440_938_160 + n, 0).unwrap()));
    sd
}

pub fn session_number(s: &SessionData) -> i64 {
    match s.get("n") {
        Some(SessionValue::Integer(i)) if *s == session_of(*i) => *i,
        _ => -1,
    }
}

impl tower::Service<GetSigningKeyRequest> for Provider {
    type Response = GetSigningKeyResponse;
    type Error = BoxError;
    type Future = ProviderFuture;

    fn poll_ready(&mut self, cx: &mut Context<'_>) -> Poll<Result<(), BoxError>> {
        if self.ready_left > 0 {
            if self.ready_left != u64::MAX {
                self.ready_left -= 1;
            }
            self.events.lock().unwrap().push(json!({"ev": "PollReady", "ret": "pending"}));
            cx.waker().wake_by_ref();
            return Poll::Pending;
        }
        if self.script.ready == "ok" {
            self.events.lock().unwrap().push(json!({"ev": "PollReady", "ret": "ready"}));
            Poll::Ready(Ok(()))
        } else {
            self.events.lock().unwrap().push(json!({"ev": "PollReady", "ret": "err"}));
            Poll::Ready(Err(script_err(&self.script.err_kind, &self.script.ready)))
        }
    }

    fn call(&mut self, req: GetSigningKeyRequest) -> ProviderFuture {
        let d = req.request_date();
        self.events.lock().unwrap().push(json!({
            "ev": "Call",
            "akid": jbytes(req.access_key().as_bytes()),
            "hasToken": req.session_token().is_some(),
            "token": jbytes(req.session_token().unwrap_or("").as_bytes()),
            "date": [d.year(), d.month(), d.day()],
            "region": jbytes(req.region().as_bytes()),
            "service": jbytes(req.service().as_bytes()),
        }));
        let outcome = if self.script.answer == "ok" {
            // a real provider derives the signing key for the date / region / service it is asked for
            let secret = String::from_utf8_lossy(&self.script.secret).to_string();
            match KSecretKey::from_str(&secret) {
                Ok(k) => {
                    let sd = session_of(self.script.principal);
                    GetSigningKeyResponse::builder()
                        .principal(principal_of(self.script.principal))
                        .session_data(sd)
                        .signing_key(k.to_ksigning(req.request_date(), req.region(), req.service()))
                        .build()
                        .map_err(|e| Box::new(e) as BoxError)
                }
                Err(e) => Err(Box::new(e) as BoxError),
            }
        } else {
            Err(script_err(&self.script.err_kind, &self.script.answer))
        };
        ProviderFuture {
            pend_left: self.script.pend_in,
            outcome: Some(outcome),
            events: self.events.clone(),
        }
    }
}

/// The harness's own signing-key chain (never the crate's).
pub fn own_signing_key(secret: &[u8], date8: &[u8], region: &[u8], service: &[u8]) -> [u8; 32] {
    let mut k0 = b"AWS4".to_vec();
    k0.extend_from_slice(secret);
    let k1 = hmac_sha256(&k0, date8);
    let k2 = hmac_sha256(&k1, region);
    let k3 = hmac_sha256(&k2, service);
    hmac_sha256(&k3, b"aws4_request")
}

pub struct Oracle {
    pub sha: Vec<Value>,
    pub sig: Vec<Value>,
}

impl Oracle {
    pub fn sha_hex(&mut self, data: &[u8]) -> Vec<u8> {
        let out = hex(&sha256(data)).into_bytes();
        self.sha.push(json!({"inp": jbytes(data), "out": jbytes(&out)}));
        out
    }
    pub fn sig_hex(&mut self, secret: &[u8], date8: &[u8], region: &[u8], service: &[u8], sts: &[u8]) -> Vec<u8> {
        let key = own_signing_key(secret, date8, region, service);
        let out = hex(&hmac_sha256(&key, sts)).into_bytes();
        self.sig.push(json!({"sts": jbytes(sts), "out": jbytes(&out), "secret": jbytes(secret), "kdate": jbytes(date8),
                             "region": jbytes(region), "service": jbytes(service)}));
        out
    }
}

fn replace_all(hay: &[u8], needle: &[u8], with: &[u8]) -> Vec<u8> {
    let mut out = Vec::with_capacity(hay.len() + with.len());
    let mut i = 0;
    while i < hay.len() {
        if hay[i..].starts_with(needle) {
            out.extend_from_slice(with);
            i += needle.len();
        } else {
            out.push(hay[i]);
            i += 1;
        }
    }
    out
}

fn mutate_sig(sig: &[u8], m: &Value) -> Vec<u8> {
    let kind = get_str(m, "kind");
    let mut s = sig.to_vec();
    match kind {
        "flip" => {
            let p = get_i64(m, "pos") as usize;
            if p < s.len() {
                s[p] = match s[p] {
                    b'0'..=b'8' => s[p] + 1,
                    b'9' => b'0',
                    b'a'..=b'e' => s[p] + 1,
                    b'f' => b'a',
                    x => x ^ 1,
                };
            }
        }
        "upper" => s = s.to_ascii_uppercase(),
        "upperflip" => {
            // the whole signature in upper case, and the hex digit at `pos` replaced within its class
            s = s.to_ascii_uppercase();
            let p = get_i64(m, "pos") as usize;
            if p < s.len() {
                s[p] = match s[p] {
                    b'0'..=b'8' => s[p] + 1,
                    b'9' => b'0',
                    b'A'..=b'E' => s[p] + 1,
                    b'F' => b'A',
                    x => x,
                };
            }
        }
        "trunc" => s.truncate(get_i64(m, "n") as usize),
        "append" => s.extend_from_slice(&get_bytes(m, "b")),
        "empty" => s.clear(),
        "set" => {
            let p = get_i64(m, "pos") as usize;
            if p < s.len() {
                s[p] = get_i64(m, "c") as u8;
            }
        }
        "fill" => {
            let c = get_i64(m, "c") as u8;
            for x in s.iter_mut() {
                *x = c;
            }
        }
        // longer / shorter than a signature AND not containing the correct one
        "flipappend" => {
            s[0] = if s[0] == b'0' { b'1' } else { b'0' };
            s.extend_from_slice(&bytes_of(m.get("b").unwrap_or(&Value::Null)));
        }
        "fliptrunc" => {
            s[0] = if s[0] == b'0' { b'1' } else { b'0' };
            s.truncate(get_i64(m, "n") as usize);
        }
        _ => {}
    }
    s
}

pub struct Built {
    pub method: Vec<u8>,
    pub uri: Vec<u8>,
    pub version: String,
    pub headers: Vec<(Vec<u8>, Vec<u8>)>,
    pub body: Vec<u8>,
}

impl Built {
    pub fn request(&self) -> Result<http::Request<Bytes>, String> {
        let method = http::Method::from_bytes(&self.method).map_err(|e| format!("method: {e}"))?;
        let uri = http::Uri::try_from(self.uri.as_slice()).map_err(|e| format!("uri: {e}"))?;
        let version = match self.version.as_str() {
            "HTTP/0.9" => http::Version::HTTP_09,
            "HTTP/1.0" => http::Version::HTTP_10,
            "HTTP/1.1" => http::Version::HTTP_11,
            "HTTP/2.0" => http::Version::HTTP_2,
            "HTTP/3.0" => http::Version::HTTP_3,
            v => return Err(format!("version: {v}")),
        };
        let mut b = http::Request::builder().method(method).uri(uri).version(version);
        for (n, v) in &self.headers {
            let name = http::header::HeaderName::from_bytes(n).map_err(|e| format!("header name: {e}"))?;
            let val = http::header::HeaderValue::from_bytes(v).map_err(|e| format!("header value: {e}"))?;
            b = b.header(name, val);
        }
        b.body(Bytes::from(self.body.clone())).map_err(|e| format!("request: {e}"))
    }
}

fn hdrs_json(h: &http::HeaderMap) -> Value {
    Value::Array(h.iter().map(|(n, v)| json!([jbytes(n.as_str().as_bytes()), jbytes(v.as_bytes())])).collect())
}

pub fn instant_json(t: DateTime<Utc>) -> Value {
    json!([t.date_naive().num_days_from_ce(), t.time().num_seconds_from_midnight(), t.time().nanosecond()])
}

pub fn now_of(cfg: &Value) -> DateTime<Utc> {
    let a: Vec<i64> = cfg.get("now").and_then(|v| v.as_array()).map(|a| a.iter().map(|x| x.as_i64().unwrap_or(0)).collect()).unwrap_or_default();
    let d = NaiveDate::from_num_days_from_ce_opt(*a.first().unwrap_or(&1) as i32).unwrap_or_default();
    let t = NaiveTime::from_num_seconds_from_midnight_opt(*a.get(1).unwrap_or(&0) as u32, *a.get(2).unwrap_or(&0) as u32)
        .unwrap_or_default();
    DateTime::<Utc>::from_naive_utc_and_offset(d.and_time(t), Utc)
}

fn str_list(cfg: &Value, k: &str) -> Vec<String> {
    cfg.get(k)
        .and_then(|v| v.as_array())
        .map(|a| a.iter().map(|x| String::from_utf8_lossy(&bytes_of(x)).to_string()).collect())
        .unwrap_or_default()
}

fn rule_hint(msg: &str) -> &'static str {
    if msg.starts_with("Date must be in ISO-8601") {
        "date"
    } else if msg.starts_with("Credential must have exactly 5") {
        "arity"
    } else if msg.starts_with("Signature expired") {
        "expired"
    } else if msg.starts_with("Signature not yet current") {
        "future"
    } else {
        ""
    }
}

fn err_fields(m: &mut Map<String, Value>, e: &SignatureError) {
    res_err(m, e);
    let msg = e.to_string();
    m.insert("rulehint".into(), json!(rule_hint(&msg)));
}

fn blank_result(m: &mut Map<String, Value>, res: &str, msg: &str) {
    res_other(m, res, msg);
    m.insert("rulehint".into(), json!(""));
}

/// Poll a future to completion on this thread with a no-op waker (no runtime, deterministic).
pub fn block_on<F: Future>(fut: F) -> Option<F::Output> {
    block_on_n(fut, 100_000)
}

/// ... giving up (None) after `max_polls` polls: a provider that pends forever never lets the validation complete.
pub fn block_on_n<F: Future>(fut: F, max_polls: usize) -> Option<F::Output> {
    let mut fut = Box::pin(fut);
    let waker = Waker::noop();
    let mut cx = Context::from_waker(waker);
    for _ in 0..max_polls {
        if let Poll::Ready(v) = fut.as_mut().poll(&mut cx) {
            return Some(v);
        }
    }
    None
}

pub enum Reqs {
    Slice(Vec<Cow<'static, str>>, Vec<Cow<'static, str>>, Vec<Cow<'static, str>>),
    Vecr(VecSignedHeaderRequirements),
}

pub fn build_reqs(cfg: &Value) -> Reqs {
    let (a, i, p) = (str_list(cfg, "always"), str_list(cfg, "ifin"), str_list(cfg, "prefix"));
    match get_str(cfg, "reqimpl") {
        "vec" => {
            let ar: Vec<&str> = a.iter().map(|s| s.as_str()).collect();
            let ir: Vec<&str> = i.iter().map(|s| s.as_str()).collect();
            let pr: Vec<&str> = p.iter().map(|s| s.as_str()).collect();
            Reqs::Vecr(VecSignedHeaderRequirements::new(&ar, &ir, &pr))
        }
        "vecadd" => {
            let mut v = VecSignedHeaderRequirements::default();
            for s in &a {
                v.add_always_present(s);
            }
            for s in &i {
                v.add_if_in_request(s);
            }
            for s in &p {
                v.add_prefix(s);
            }
            Reqs::Vecr(v)
        }
        _ => Reqs::Slice(
            a.into_iter().map(Cow::Owned).collect(),
            i.into_iter().map(Cow::Owned).collect(),
            p.into_iter().map(Cow::Owned).collect(),
        ),
    }
}

/// Everything the end-to-end call returned, projected.
pub fn end_event(out: Option<Result<Result<(http::request::Parts, Bytes, scratchstack_aws_signature::auth::SigV4AuthenticatorResponse), BoxError>, String>>) -> Value {
    let mut m = Map::new();
    m.insert("ev".into(), json!("End"));
    m.insert("principal".into(), json!(-1));
    m.insert("session".into(), json!(-1));
    m.insert("ret".into(), json!({"method": [], "uri": [], "version": "", "hdrs": [], "body": []}));
    match out {
        None => blank_result(&mut m, "stuck", "future never completed"),
        Some(Err(p)) => blank_result(&mut m, "panic", &p),
        Some(Ok(Err(e))) => match e.downcast::<SignatureError>() {
            Ok(se) => {
                err_fields(&mut m, &se);
                m.insert("debug".into(), json!(ascii_only(&format!("{:?}", se))));
            }
            Err(other) => {
                blank_result(&mut m, "err", &other.to_string());
                m.insert("kind".into(), json!("NotASignatureError"));
            }
        },
        Some(Ok(Ok((parts, body, resp)))) => {
            res_ok(&mut m, &[]);
            m.insert("rulehint".into(), json!(""));
            m.insert("principal".into(), json!(principal_number(resp.principal())));
            m.insert("session".into(), json!(session_number(resp.session_data())));
            m.insert(
                "ret".into(),
                json!({"method": jbytes(parts.method.as_str().as_bytes()),
                       "uri": jbytes(parts.uri.to_string().as_bytes()),
                       "version": format!("{:?}", parts.version),
                       "hdrs": hdrs_json(&parts.headers),
                       "body": jbytes(&body)}),
            );
        }
    }
    Value::Object(m)
}

pub fn options_of(cfg: &Value) -> SignatureOptions {
    SignatureOptions {
        s3: get_bool(cfg, "s3"),
        url_encode_form: get_bool(cfg, "fold"),
    }
}

/// Evaluate the case's signing directive (if any) and substitute the signature placeholder.
pub fn build(case: &Value, oracle: &mut Oracle) -> Built {
    let mut headers: Vec<(Vec<u8>, Vec<u8>)> = case
        .get("headers")
        .and_then(|v| v.as_array())
        .map(|a| a.iter().map(|h| (bytes_of(&h[0]), bytes_of(&h[1]))).collect())
        .unwrap_or_default();
    let mut uri = get_bytes(case, "uri");
    // "nonce": the request carries the token NONCE0000 (nine unreserved characters, so its canonical form is itself);
    // choose the nine digits that replace it such that the CORRECT signature has the requested shape. The
    // specification re-reads the request as sent, so an inconsistent substitution could only show as a mismatch.
    let mut case_owned;
    let mut case = case;
    let want = get_str(case, "nonce").to_string();
    if !want.is_empty() {
        if let Some(sign) = case.get("sign").filter(|v| v.is_object()) {
            for k in 0u32..200_000 {
                let digits = format!("{:09}", k).into_bytes();
                let mut creq = replace_all(&get_bytes(sign, "creqPre"), NONCE, &digits);
                creq.extend_from_slice(hex(&sha256(&get_bytes(sign, "payload"))).as_bytes());
                let mut sts = get_bytes(sign, "stsPre");
                sts.extend_from_slice(hex(&sha256(&creq)).as_bytes());
                let key = own_signing_key(&get_bytes(sign, "secret"), &get_bytes(sign, "kdate"), &get_bytes(sign, "region"), &get_bytes(sign, "service"));
                let sig = hex(&hmac_sha256(&key, &sts)).into_bytes();
                let ok = match want.as_str() {
                    "lead0" => sig[0] == b'0' && sig[1] != b'0',
                    "lead00" => sig.starts_with(b"00"),
                    "trail0" => sig.ends_with(b"0"),
                    _ => true,
                };
                if ok {
                    case_owned = case.clone();
                    uri = replace_all(&uri, NONCE, &digits);
                    case_owned["sign"]["creqPre"] = jbytes(&replace_all(&get_bytes(sign, "creqPre"), NONCE, &digits));
                    case = &case_owned;
                    break;
                }
            }
        }
    }
    if let Some(sign) = case.get("sign").filter(|v| v.is_object()) {
        // "payloadhex": a signer that takes the payload hash from somewhere else than the body (literal)
        let payload_hex = match sign.get("payloadhex") {
            Some(v) if v.is_array() && !bytes_of(v).is_empty() => bytes_of(v),
            _ => oracle.sha_hex(&get_bytes(sign, "payload")),
        };
        let mut creq = get_bytes(sign, "creqPre");
        creq.extend_from_slice(&payload_hex);
        let creq_hex = oracle.sha_hex(&creq);
        let mut sts = get_bytes(sign, "stsPre");
        sts.extend_from_slice(&creq_hex);
        let sig = match sign.get("rawkey") {
            // "rawkey": a signer that uses these 32 bytes as the signing key directly (not derived from a secret)
            Some(v) if v.is_array() && !bytes_of(v).is_empty() => hex(&hmac_sha256(&bytes_of(v), &sts)).into_bytes(),
            _ => oracle.sig_hex(
                &get_bytes(sign, "secret"),
                &get_bytes(sign, "kdate"),
                &get_bytes(sign, "region"),
                &get_bytes(sign, "service"),
                &sts,
            ),
        };
        let sig = match sign.get("sigmut") {
            Some(m) if m.is_object() => mutate_sig(&sig, m),
            _ => sig,
        };
        uri = replace_all(&uri, PLACEHOLDER, &sig);
        for h in headers.iter_mut() {
            h.1 = replace_all(&h.1, PLACEHOLDER, &sig);
        }
    }
    Built {
        method: get_bytes(case, "method"),
        uri,
        version: {
            let v = get_str(case, "version");
            if v.is_empty() {
                "HTTP/1.1".to_string()
            } else {
                v.to_string()
            }
        },
        headers,
        body: get_bytes(case, "body"),
    }
}

fn run_e2e<S: SignedHeaderRequirements>(
    req: http::Request<Bytes>,
    cfg: &Value,
    script: &Script,
    reqs: &S,
    events: Events,
) -> Value {
    let region = String::from_utf8_lossy(&get_bytes(cfg, "region")).to_string();
    let service = String::from_utf8_lossy(&get_bytes(cfg, "service")).to_string();
    let now = now_of(cfg);
    let opts = options_of(cfg);
    let mut provider = Provider {
        script: script.clone(),
        ready_left: script.ready_in,
        events,
    };
    let bodykind = get_str(cfg, "bodykind").to_string();
    let polls = if script.ready_in == u64::MAX || script.pend_in == u64::MAX { 12 } else { 100_000 };
    if get_str(cfg, "provider") == "fn" {
        // the crate's own adapter: an async closure wrapped by service_for_signing_key_fn (a tower ServiceFn, which is
        // always ready and answers without pending); its interactions are recorded in the same vocabulary
        let ev2 = provider.events.clone();
        let sc = script.clone();
        // (bound separately: a closure literal passed directly would be inferred as FnOnce from the adapter's bound)
        let adapter_fn = move |r: GetSigningKeyRequest| {
            let mut inner = Provider {
                script: Script { ready_in: 0, pend_in: 0, ..sc.clone() },
                ready_left: 0,
                events: ev2.clone(),
            };
            ev2.lock().unwrap().push(json!({"ev": "PollReady", "ret": if sc.ready == "ok" { "ready" } else { "err" }}));
            let ready_ok = sc.ready == "ok";
            let sc2 = sc.clone();
            let fut = if ready_ok { Some(tower::Service::call(&mut inner, r)) } else { None };
            async move {
                match fut {
                    Some(f) => f.await,
                    None => Err(script_err(&sc2.err_kind, &sc2.ready)),
                }
            }
        };
        let mut svc = scratchstack_aws_signature::service_for_signing_key_fn(adapter_fn);
        let out = guarded(|| block_on_n(sigv4_validate_request(req, &region, &service, &mut svc, now, reqs, opts), polls));
        return match out {
            Err(p) => end_event(Some(Err(p))),
            Ok(None) => end_event(None),
            Ok(Some(r)) => end_event(Some(Ok(r))),
        };
    }
    let out = guarded(|| {
        if bodykind == "vec" {
            let (p, b) = req.into_parts();
            let r = http::Request::from_parts(p, b.to_vec());
            block_on_n(sigv4_validate_request(r, &region, &service, &mut provider, now, reqs, opts), polls)
        } else if bodykind == "unit" && req.body().is_empty() {
            let (p, _) = req.into_parts();
            let r = http::Request::from_parts(p, ());
            block_on_n(sigv4_validate_request(r, &region, &service, &mut provider, now, reqs, opts), polls)
        } else {
            block_on_n(sigv4_validate_request(req, &region, &service, &mut provider, now, reqs, opts), polls)
        }
    });
    match out {
        Err(p) => end_event(Some(Err(p))),
        Ok(None) => end_event(None),
        Ok(Some(r)) => end_event(Some(Ok(r))),
    }
}

fn stage_err(name: &str, r: Result<&SignatureError, &str>, extra: Value) -> Value {
    let mut m = extra.as_object().cloned().unwrap_or_default();
    m.insert("ev".into(), json!(name));
    match r {
        Ok(e) => err_fields(&mut m, e),
        Err(p) => blank_result(&mut m, "panic", p),
    }
    Value::Object(m)
}

fn stage_ok(name: &str, extra: Value) -> Value {
    let mut m = extra.as_object().cloned().unwrap_or_default();
    m.insert("ev".into(), json!(name));
    res_ok(&mut m, &[]);
    m.insert("rulehint".into(), json!(""));
    Value::Object(m)
}

/// Accessors of the stage objects are code under test as well: a panic anywhere in the staged run is an outcome
/// (a stage event with res = "panic"), never a crash of the harness.
fn staged_guarded(f: impl FnOnce(&mut Oracle) -> Vec<Value>, oracle: &mut Oracle) -> Vec<Value> {
    match guarded(|| f(oracle)) {
        Ok(v) => v,
        Err(p) => vec![stage_err("StageCanon", Err(&p), json!({"cpath": [], "cquery": [], "bodyhash": []}))],
    }
}

/// The same request stage by stage through the `unstable` API, exposing each stage's state.
fn run_staged<S: SignedHeaderRequirements>(
    req: http::Request<Bytes>,
    cfg: &Value,
    script: &Script,
    reqs: &S,
    oracle: &mut Oracle,
) -> Vec<Value> {
    let mut evs = Vec::new();
    let region = String::from_utf8_lossy(&get_bytes(cfg, "region")).to_string();
    let service = String::from_utf8_lossy(&get_bytes(cfg, "service")).to_string();
    let now = now_of(cfg);
    let (parts, body) = req.into_parts();
    let blank_canon = json!({"cpath": [], "cquery": [], "bodyhash": []});
    let creq = match guarded(|| CanonicalRequest::from_request_parts(parts, body, options_of(cfg))) {
        Err(p) => {
            evs.push(stage_err("StageCanon", Err(&p), blank_canon));
            return evs;
        }
        Ok(Err(e)) => {
            evs.push(stage_err("StageCanon", Ok(&e), blank_canon));
            return evs;
        }
        Ok(Ok((c, _p, _b))) => c,
    };
    // (Debug renderings of the code under test are code under test: a panic in one is an outcome, not a crash)
    let render_canon = if crate::leak::active() {
        match guarded(|| format!("{:?}", creq)) {
            Ok(s) => s,
            Err(p) => {
                evs.push(stage_err("StageCanon", Err(&p), blank_canon));
                return evs;
            }
        }
    } else {
        String::new()
    };
    evs.push(stage_ok(
        "StageCanon",
        json!({"render": render_canon, "cpath": jbytes(creq.canonical_path().as_bytes()),
               "cquery": jbytes(creq.canonical_query_string().as_bytes()),
               "bodyhash": jbytes(creq.body_sha256().as_bytes())}),
    ));
    let blank_params = json!({"cred": [], "sig": [], "hasToken": false, "token": [], "signed": [], "ts": []});
    let ap = match guarded(|| creq.get_auth_parameters(reqs)) {
        Err(p) => {
            evs.push(stage_err("StageParams", Err(&p), blank_params));
            return evs;
        }
        Ok(Err(e)) => {
            evs.push(stage_err("StageParams", Ok(&e), blank_params));
            return evs;
        }
        Ok(Ok(ap)) => ap,
    };
    let signed = ap.signed_headers.clone();
    let render_params = if crate::leak::active() {
        match guarded(|| format!("{:?}", ap)) {
            Ok(s) => s,
            Err(p) => {
                evs.push(stage_err("StageParams", Err(&p), blank_params));
                return evs;
            }
        }
    } else {
        String::new()
    };
    evs.push(stage_ok(
        "StageParams",
        json!({"render": render_params, "cred": jbytes(ap.builder.get_credential().unwrap_or("").as_bytes()),
               "sig": jbytes(ap.builder.get_signature().unwrap_or("").as_bytes()),
               "hasToken": ap.builder.get_session_token().is_some(),
               "token": jbytes(ap.builder.get_session_token().unwrap_or("").as_bytes()),
               "signed": Value::Array(signed.iter().map(|s| jbytes(s.as_bytes())).collect()),
               "ts": jbytes(ap.timestamp_str.as_bytes())}),
    ));
    let blank_auth = json!({"inst": [0, 0, 0], "creq": []});
    let auth: SigV4Authenticator = match guarded(|| creq.get_authenticator_from_auth_parameters(ap)) {
        Err(p) => {
            evs.push(stage_err("StageAuth", Err(&p), blank_auth));
            return evs;
        }
        Ok(Err(e)) => {
            evs.push(stage_err("StageAuth", Ok(&e), blank_auth));
            return evs;
        }
        Ok(Ok(a)) => a,
    };
    let creq_bytes = match guarded(|| creq.canonical_request(&signed)) {
        Ok(b) => b,
        Err(p) => {
            evs.push(stage_err("StageAuth", Err(&p), blank_auth));
            return evs;
        }
    };
    oracle.sha_hex(&creq_bytes);
    let render_auth = if crate::leak::active() {
        match guarded(|| format!("{:?}", auth)) {
            Ok(s) => s,
            Err(p) => {
                evs.push(stage_err("StageAuth", Err(&p), blank_auth));
                return evs;
            }
        }
    } else {
        String::new()
    };
    evs.push(stage_ok("StageAuth", json!({"render": render_auth, "inst": instant_json(auth.request_timestamp().with_timezone(&Utc)), "creq": jbytes(&creq_bytes)})));
    match guarded(|| auth.prevalidate(&region, &service, now, Duration::minutes(15))) {
        Err(p) => {
            evs.push(stage_err("StagePre", Err(&p), json!({})));
            return evs;
        }
        Ok(Err(e)) => {
            evs.push(stage_err("StagePre", Ok(&e), json!({})));
            return evs;
        }
        Ok(Ok(())) => evs.push(stage_ok("StagePre", json!({}))),
    }
    match guarded(|| auth.get_string_to_sign()) {
        Err(p) => evs.push(stage_err("StageSts", Err(&p), json!({"sts": []}))),
        Ok(sts) => {
            // what the correct signature would be under the provider's key for this request
            let d = auth.request_timestamp().with_timezone(&Utc).date_naive().format("%Y%m%d").to_string();
            oracle.sig_hex(&script.secret, d.as_bytes(), region.as_bytes(), service.as_bytes(), &sts);
            evs.push(stage_ok("StageSts", json!({"sts": jbytes(&sts)})));
        }
    }
    // The same authenticator validated LATER (one hour on, same tolerance) through the unstable route: every call
    // re-checks freshness against the clock it is given, so this must be refused as expired and the provider must
    // not be consulted - whatever an earlier prevalidate() on this object concluded.
    let events: Events = Arc::new(Mutex::new(Vec::new()));
    let mut late_script = script.clone();
    late_script.ready_in = 0;
    late_script.pend_in = 0;
    let mut provider = Provider {
        script: late_script,
        ready_left: 0,
        events: events.clone(),
    };
    let late = guarded(|| block_on_n(auth.validate_signature(&region, &service, now + Duration::hours(1), Duration::minutes(15), &mut provider), 1000));
    let calls = events.lock().unwrap().len();
    let mut ev = match late {
        Err(p) => stage_err("StageLate", Err(&p), json!({})),
        Ok(None) => {
            let mut m = Map::new();
            m.insert("ev".into(), json!("StageLate"));
            blank_result(&mut m, "stuck", "future never completed");
            Value::Object(m)
        }
        Ok(Some(Err(e))) => stage_err("StageLate", Ok(&e), json!({})),
        Ok(Some(Ok(_))) => stage_ok("StageLate", json!({})),
    };
    ev["provider_events"] = json!(calls);
    evs.push(ev);
    evs
}

pub fn run(case: &Value) -> Vec<Value> {
    let cfg = case.get("cfg").cloned().unwrap_or(json!({}));
    let script = Script::from_json(case.get("script").unwrap_or(&json!({})));
    let mut oracle = Oracle {
        sha: Vec::new(),
        sig: Vec::new(),
    };
    let built = build(case, &mut oracle);
    let id = case.get("id").cloned().unwrap_or(json!(0));
    let req = match built.request() {
        Ok(r) => r,
        Err(why) => return vec![json!({"ev": "Inadm", "id": id, "why": ascii_only(&why), "res": "inadm"})],
    };
    // the environment's view of the request (what the http crate hands the library)
    oracle.sha_hex(req.body());
    oracle.sha_hex(b"");
    let env = json!({
        "method": jbytes(req.method().as_str().as_bytes()),
        "path": jbytes(req.uri().path().as_bytes()),
        "query": jbytes(req.uri().query().unwrap_or("").as_bytes()),
        "uri": jbytes(req.uri().to_string().as_bytes()),
        "version": format!("{:?}", req.version()),
        "hdrs": hdrs_json(req.headers()),
        "body": jbytes(req.body()),
    });
    let reqs = build_reqs(&cfg);
    let events: Events = Arc::new(Mutex::new(Vec::new()));
    let req2 = built.request().unwrap();
    let leak_mode = get_bool(case, "leak");
    if leak_mode {
        crate::leak::start();
    }
    let (end, staged) = match &reqs {
        Reqs::Slice(a, i, p) => {
            let r = SliceSignedHeaderRequirements::new(a, i, p);
            let st = staged_guarded(|o| run_staged(req2, &cfg, &script, &r, o), &mut oracle);
            (run_e2e(req, &cfg, &script, &r, events.clone()), st)
        }
        Reqs::Vecr(v) => {
            let st = staged_guarded(|o| run_staged(req2, &cfg, &script, v, o), &mut oracle);
            (run_e2e(req, &cfg, &script, v, events.clone()), st)
        }
    };
    let records = if leak_mode { crate::leak::stop() } else { Vec::new() };
    let mut leak_events: Vec<Value> = Vec::new();
    if leak_mode {
        // everything secret in this case: the provider's secret, every key derived from it for the request's
        // (and the server's) date, and the signature the server computes for the request
        let region = get_bytes(&cfg, "region");
        let service = get_bytes(&cfg, "service");
        let mut needles = vec![crate::leak::needle("secret", &script.secret, false)];
        let mut dates: Vec<String> = vec![now_of(&cfg).date_naive().format("%Y%m%d").to_string()];
        for e in oracle.sig.iter() {
            let d = String::from_utf8_lossy(&bytes_of(&e["kdate"])).to_string();
            if !dates.contains(&d) {
                dates.push(d);
            }
        }
        for d in &dates {
            let mut k0 = b"AWS4".to_vec();
            k0.extend_from_slice(&script.secret);
            let k1 = hmac_sha256(&k0, d.as_bytes());
            let k2 = hmac_sha256(&k1, &region);
            let k3 = hmac_sha256(&k2, &service);
            let k4 = hmac_sha256(&k3, b"aws4_request");
            needles.push(crate::leak::needle("kDate", &k1, false));
            needles.push(crate::leak::needle("kRegion", &k2, false));
            needles.push(crate::leak::needle("kService", &k3, false));
            needles.push(crate::leak::needle("kSigning", &k4, false));
        }
        // the correct signature under the provider's key, as evaluated for the library's own string-to-sign
        // (a signature the client itself presented is not a disclosure: only a server-computed signature that
        // differs from the presented one counts)
        let presented: Vec<u8> = staged
            .iter()
            .find(|s| get_str(s, "ev") == "StageParams" && get_str(s, "res") == "ok")
            .map(|s| get_bytes(s, "sig"))
            .unwrap_or_default();
        for e in oracle.sig.iter() {
            let exp = bytes_of(&e["out"]);
            let shown = presented.to_ascii_lowercase();
            let client_has_it = !exp.is_empty() && shown.windows(exp.len()).any(|w| w == exp.as_slice());
            if bytes_of(&e["secret"]) == script.secret && !client_has_it {
                let hexsig = bytes_of(&e["out"]);
                let mut n = crate::leak::needle("expectedSig", &[], false);
                n.forms.push(hexsig.clone());
                n.forms.push(hexsig.to_ascii_uppercase());
                needles.push(n);
            }
        }
        let refused = end.get("res").and_then(|v| v.as_str()) != Some("ok");
        for (level, msg) in &records {
            leak_events.push(json!({"ev": "Log", "level": level, "refused": refused,
                                    "taints": crate::leak::taints(msg.as_bytes(), &needles)}));
        }
        let msg = get_str(&end, "msg").to_string();
        leak_events.push(json!({"ev": "Render", "what": "error.display", "refused": refused, "res": "ok",
                                "taints": crate::leak::taints(msg.as_bytes(), &needles)}));
        let dbg = get_str(&end, "debug").to_string();
        leak_events.push(json!({"ev": "Render", "what": "error.debug", "refused": refused, "res": "ok",
                                "taints": crate::leak::taints(dbg.as_bytes(), &needles)}));
        for s in staged.iter() {
            if let Some(r) = s.get("render").and_then(|v| v.as_str()).filter(|r| !r.is_empty()) {
                leak_events.push(json!({"ev": "Render", "what": format!("{}.debug", get_str(s, "ev")), "refused": refused,
                                        "res": "ok", "taints": crate::leak::taints(r.as_bytes(), &needles)}));
            }
        }
    }
    let mut end = end;
    let pd = proj_digest(&end, &prov_snapshot(&events));
    if let Some(o) = end.as_object_mut() {
        o.insert("proj".into(), json!(pd));
    }
    let mut out = Vec::new();
    let mut cfgj = cfg.clone();
    if let Some(o) = cfgj.as_object_mut() {
        for k in ["always", "ifin", "prefix"] {
            let l: Vec<Value> = str_list(&cfg, k).iter().map(|s| jbytes(s.as_bytes())).collect();
            o.insert(k.into(), Value::Array(l));
        }
        o.insert("region".into(), jbytes(&get_bytes(&cfg, "region")));
        o.insert("service".into(), jbytes(&get_bytes(&cfg, "service")));
        o.insert("now".into(), instant_json(now_of(&cfg)));
        o.insert("s3".into(), json!(get_bool(&cfg, "s3")));
        o.insert("fold".into(), json!(get_bool(&cfg, "fold")));
    }
    let prov_events: Vec<Value> = events.lock().unwrap().drain(..).collect();
    // nev: how many events of this case follow the Begin line (bounds the validator's look-ahead)
    out.push(json!({"ev": "Begin", "id": id, "env": env, "cfg": cfgj, "script": script.to_json(),
                    "oracle": {"sha": oracle.sha, "sig": oracle.sig},
                    "nev": prov_events.len() + 1 + staged.len() + leak_events.len()}));
    out.extend(prov_events);
    out.push(end);
    // rendered texts were only needed for the scan above
    out.extend(staged.into_iter().map(|mut s| {
        if let Some(o) = s.as_object_mut() {
            o.remove("render");
        }
        s
    }));
    out.extend(leak_events);
    out
}

/// End-to-end run of an already built request with an always-ready provider and no requirements
/// (used by size probes where the interesting outcome is decided before authentication).
pub fn run_plain(req: http::Request<Bytes>, cfg: &Value) -> Value {
    let script = Script {
        ready_in: 0,
        ready: "ok".into(),
        pend_in: 0,
        answer: "ok".into(),
        err_kind: "InvalidClientTokenId".into(),
        principal: 1,
        secret: b"wJalrXUtnFEMI/K7MDENG+bPxRfiCYEXAMPLEKEY".to_vec(),
    };
    let cfgb = json!({"region": jbytes(get_str(cfg, "region").as_bytes()), "service": jbytes(get_str(cfg, "service").as_bytes()),
                      "now": cfg.get("now").cloned().unwrap_or(json!([735840, 45360, 0])),
                      "s3": get_bool(cfg, "s3"), "fold": get_bool(cfg, "fold")});
    let events: Events = Arc::new(Mutex::new(Vec::new()));
    let none: [Cow<'static, str>; 0] = [];
    let r = SliceSignedHeaderRequirements::new(&none, &none, &none);
    run_e2e(req, &cfgb, &script, &r, events)
}

fn prov_snapshot(events: &Events) -> Vec<Value> {
    events.lock().unwrap().clone()
}

/// C18: the caller-visible outcome (result kind/code/status, returned request, principal, provider
/// interactions) without free-text messages, as a digest.
pub fn proj_digest(end: &Value, prov: &[Value]) -> String {
    let mut m = Map::new();
    for k in ["res", "kind", "code", "status", "principal", "session", "ret"] {
        m.insert(k.into(), end.get(k).cloned().unwrap_or(Value::Null));
    }
    m.insert("prov".into(), Value::Array(prov.to_vec()));
    hex(&sha256(serde_json::to_string(&Value::Object(m)).unwrap().as_bytes()))
}

/// End-to-end only (no staged run, no oracle): used by the concurrency / multi-process drivers.
pub fn run_e2e_only(case: &Value) -> Option<(Value, String)> {
    let cfg = case.get("cfg").cloned().unwrap_or(json!({}));
    let script = Script::from_json(case.get("script").unwrap_or(&json!({})));
    let mut oracle = Oracle {
        sha: Vec::new(),
        sig: Vec::new(),
    };
    let built = build(case, &mut oracle);
    let req = built.request().ok()?;
    let reqs = build_reqs(&cfg);
    let events: Events = Arc::new(Mutex::new(Vec::new()));
    let end = match &reqs {
        Reqs::Slice(a, i, p) => {
            let r = SliceSignedHeaderRequirements::new(a, i, p);
            run_e2e(req, &cfg, &script, &r, events.clone())
        }
        Reqs::Vecr(v) => run_e2e(req, &cfg, &script, v, events.clone()),
    };
    let d = proj_digest(&end, &prov_snapshot(&events));
    Some((end, d))
}

/// `conform threads <cases> <out> <nthreads> <rounds> <seed>`: N threads released together validate the
/// shuffled corpus; the first touches of the library's lazily initialised globals are raced.
pub fn threads_main(cases_path: &str, out_path: &str, nthreads: usize, rounds: usize, seed: u64) {
    use std::io::{BufRead, Write};
    let f = std::fs::File::open(cases_path).expect("open cases");
    let cases: Vec<Value> = std::io::BufReader::new(f)
        .lines()
        .filter_map(|l| l.ok())
        .filter(|l| !l.trim().is_empty())
        .map(|l| serde_json::from_str(&l).expect("case"))
        .collect();
    let cases = Arc::new(cases);
    let results: Arc<Mutex<Vec<Value>>> = Arc::new(Mutex::new(Vec::new()));
    let pid = std::process::id();
    if std::env::var("VERIF_LOG").map(|v| v == "trace").unwrap_or(false) {
        crate::leak::start_discard();
    }
    for round in 0..rounds {
        let barrier = Arc::new(std::sync::Barrier::new(nthreads));
        let mut hs = Vec::new();
        for t in 0..nthreads {
            let cases = cases.clone();
            let results = results.clone();
            let barrier = barrier.clone();
            hs.push(std::thread::spawn(move || {
                crate::util::quiet_panics();
                let mut rng = Rng::new(seed ^ ((round as u64) << 32) ^ (t as u64 * 7919) ^ (pid as u64));
                let mut order: Vec<usize> = (0..cases.len()).collect();
                for i in (1..order.len()).rev() {
                    let j = rng.below(i + 1);
                    order.swap(i, j);
                }
                let mut local = Vec::with_capacity(order.len());
                barrier.wait();
                for (seq, ci) in order.iter().enumerate() {
                    let c = &cases[*ci];
                    let r = guarded(|| run_e2e_only(c));
                    let (res, proj) = match r {
                        Ok(Some((end, d))) => (get_str(&end, "res").to_string(), d),
                        Ok(None) => ("inadm".to_string(), "inadm".to_string()),
                        Err(p) => ("panic".to_string(), format!("panic:{p}")),
                    };
                    local.push(json!({"op": "det", "id": c.get("id").cloned().unwrap_or(json!(0)),
                                      "who": format!("p{}r{}t{}#{}", pid, round, t, seq), "res": res, "proj": proj}));
                }
                results.lock().unwrap().extend(local);
            }));
        }
        for h in hs {
            let _ = h.join();
        }
    }
    let mut w = std::io::BufWriter::new(std::fs::File::create(out_path).expect("create"));
    for v in results.lock().unwrap().iter() {
        serde_json::to_writer(&mut w, v).unwrap();
        w.write_all(b"\n").unwrap();
    }
    w.flush().unwrap();
    println!("threads: {} observations", results.lock().unwrap().len());
}

type ValOut = Result<(http::request::Parts, Bytes, scratchstack_aws_signature::auth::SigV4AuthenticatorResponse), BoxError>;

/// One validation as a future that owns everything it needs (so several can be in flight at once).
async fn validate_owned(
    req: http::Request<Bytes>,
    region: String,
    service: String,
    mut provider: Provider,
    now: DateTime<Utc>,
    reqs: Reqs,
    opts: SignatureOptions,
) -> ValOut {
    match &reqs {
        Reqs::Slice(a, i, p) => {
            let r = SliceSignedHeaderRequirements::new(a, i, p);
            sigv4_validate_request(req, &region, &service, &mut provider, now, &r, opts).await
        }
        Reqs::Vecr(v) => sigv4_validate_request(req, &region, &service, &mut provider, now, v, opts).await,
    }
}

/// `conform interleave <cases> <out>`: consecutive cases are validated two at a time ON ONE THREAD, their futures
/// polled alternately (A, B, A, B, ...), so that a validation waiting for its key provider is suspended while
/// another one runs. C18: the outcome of each must be what it is when validated alone.
pub fn interleave_main(cases_path: &str, out_path: &str) {
    use std::io::{BufRead, Write};
    let f = std::fs::File::open(cases_path).expect("open cases");
    let cases: Vec<Value> = std::io::BufReader::new(f)
        .lines()
        .filter_map(|l| l.ok())
        .filter(|l| !l.trim().is_empty())
        .map(|l| serde_json::from_str(&l).expect("case"))
        .collect();
    let mut w = std::io::BufWriter::new(std::fs::File::create(out_path).expect("create"));
    let waker = Waker::noop();
    let mut n = 0usize;
    for pair in cases.chunks(2) {
        let mut futs: Vec<(Pin<Box<dyn Future<Output = ValOut>>>, Events, Option<ValOut>)> = Vec::new();
        let mut ids = Vec::new();
        for c in pair {
            let cfg = c.get("cfg").cloned().unwrap_or(json!({}));
            let script = Script::from_json(c.get("script").unwrap_or(&json!({})));
            if script.ready_in == u64::MAX || script.pend_in == u64::MAX {
                continue;
            }
            let mut oracle = Oracle {
                sha: Vec::new(),
                sig: Vec::new(),
            };
            let built = build(c, &mut oracle);
            let req = match built.request() {
                Ok(r) => r,
                Err(_) => continue,
            };
            let events: Events = Arc::new(Mutex::new(Vec::new()));
            let provider = Provider {
                script: script.clone(),
                ready_left: script.ready_in,
                events: events.clone(),
            };
            let fut = validate_owned(
                req,
                String::from_utf8_lossy(&get_bytes(&cfg, "region")).to_string(),
                String::from_utf8_lossy(&get_bytes(&cfg, "service")).to_string(),
                provider,
                now_of(&cfg),
                build_reqs(&cfg),
                options_of(&cfg),
            );
            futs.push((Box::pin(fut), events, None));
            ids.push(c.get("id").cloned().unwrap_or(json!(0)));
        }
        let r = guarded(|| {
            let mut cx = Context::from_waker(waker);
            for _ in 0..10_000 {
                let mut all = true;
                for (fut, _, out) in futs.iter_mut() {
                    if out.is_none() {
                        match fut.as_mut().poll(&mut cx) {
                            Poll::Ready(v) => *out = Some(v),
                            Poll::Pending => all = false,
                        }
                    }
                }
                if all {
                    break;
                }
            }
        });
        for (k, (_, events, out)) in futs.into_iter().enumerate() {
            let end = match (&r, out) {
                (Err(p), _) => end_event(Some(Err(p.clone()))),
                (Ok(()), None) => end_event(None),
                (Ok(()), Some(v)) => end_event(Some(Ok(v))),
            };
            let d = proj_digest(&end, &prov_snapshot(&events));
            let ev = json!({"op": "det", "id": ids[k], "who": format!("interleaved#{}", n), "res": get_str(&end, "res"), "proj": d});
            serde_json::to_writer(&mut w, &ev).unwrap();
            w.write_all(b"\n").unwrap();
            n += 1;
        }
    }
    w.flush().unwrap();
    println!("interleave: {} observations", n);
}
