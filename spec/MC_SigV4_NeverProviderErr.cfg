SPECIFICATION Spec
CONSTANT Bug = "none"
CONSTANT MaxDefects = 1
CONSTANT MaxValidations = 1
CONSTANT AllowForever = FALSE
CONSTANT MaxPending = 1
INVARIANT NeverProviderErr
CHECK_DEADLOCK FALSE
