------------------------------ MODULE KeyTerms ------------------------------
(***************************************************************************)
(* Signing-key derivation (C06) with symbolic cryptography.                *)
(*   kDate    = Hmac("AWS4" \o secret, YYYYMMDD)                           *)
(*   kRegion  = Hmac(kDate, region)                                        *)
(*   kService = Hmac(kRegion, service)                                     *)
(*   kSigning = Hmac(kService, "aws4_request")                             *)
(* Hmac is an uninterpreted injective constructor (a record).  The public *)
(* derivation methods of the key types are the actions of a small state    *)
(* machine; PathIndependence says every method path to a key kind yields   *)
(* the same term.                                                           *)
(***************************************************************************)
EXTENDS Bytes, Iso8601

Hmac(k, m) == [fn |-> "hmac", key |-> k, msg |-> m]

bAWS4        == B("AWS4")
bAws4Request == B("aws4_request")

KDate(secret, date)              == Hmac(bAWS4 \o secret, DateYMD(date[1], date[2], date[3]))
KRegion(secret, date, region)    == Hmac(KDate(secret, date), region)
KService(secret, date, r, s)     == Hmac(KRegion(secret, date, r), s)
KSigning(secret, date, r, s)     == Hmac(KService(secret, date, r, s), bAws4Request)

\* KSecretKey<M>::from_str accepts iff the prefixed secret fits the capacity
FromStrAccepts(secret, cap) == Len(secret) + 4 <= cap
=============================================================================
