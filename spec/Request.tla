------------------------------ MODULE Request ------------------------------
(***************************************************************************)
(* Q(env, cfg): the reference reading of one HTTP request, rule by rule,  *)
(* in the documented order (docs/AWS Auth Error Ordering.pdf, rules 1-13).*)
(*                                                                         *)
(* env = what the http crate hands the library:                            *)
(*   [method, path, query, hdrs (sequence of <<lower-case name, value>>   *)
(*    in iteration order), body]                                           *)
(* cfg = server configuration:                                             *)
(*   [region, service, now (instant), s3, fold, always, ifin, prefix]      *)
(*                                                                         *)
(* The result says which rule fails first (0 = none of 1..13) with which  *)
(* error kind, and carries every intermediate value the later rules and   *)
(* the trace validation need.  Cryptographic digests do not appear: the   *)
(* canonical request is returned as the bytes before the payload hash     *)
(* (creqPre) plus the bytes whose SHA-256 completes it (payload).          *)
(***************************************************************************)
EXTENDS Bytes, UriCanon, Headers, Iso8601, Utf8, Charsets

\* An absolute-form target (scheme://authority[/path][?query]) denotes the same path and query as its origin form:
\* the http crate reports path "/" when there is none.  AuthLen = length of the scheme://authority prefix (0: origin form)
AuthLen(u) ==
    IF u = <<>> \/ u[1] = SLASH THEN 0
    ELSE LET marks == {i \in 1..(Len(u) - 2) : u[i] = 58 /\ u[i + 1] = SLASH /\ u[i + 2] = SLASH} IN
         IF marks = {} THEN 0
         ELSE LET s == Min(marks) + 3
                  ends == {i \in s..Len(u) : u[i] \in {SLASH, 63}}
              IN IF ends = {} THEN Len(u) ELSE Min(ends) - 1
OriginForm(u) ==
    LET rest == SubSeq(u, AuthLen(u) + 1, Len(u))
    IN IF AuthLen(u) > 0 /\ (rest = <<>> \/ rest[1] = 63) THEN <<SLASH>> \o rest ELSE rest


LF == 10

bAuthorization == B("authorization")
bContentType   == B("content-type")
bFormType      == B("application/x-www-form-urlencoded")
bCharset       == B("charset")
bXAmzDateL     == B("x-amz-date")
bDateL         == B("date")
bTokenL        == B("x-amz-security-token")
bHost          == B("host")
bAuthority     == B(":authority")
bAlgorithm     == B("AWS4-HMAC-SHA256")
bCredential    == B("Credential")
bSignature     == B("Signature")
bSignedHeaders == B("SignedHeaders")
bQAlgorithm    == B("X-Amz-Algorithm")
bQCredential   == B("X-Amz-Credential")
bQSignature    == B("X-Amz-Signature")
bQSignedHeaders == B("X-Amz-SignedHeaders")
bQDate         == B("X-Amz-Date")
bQToken        == B("X-Amz-Security-Token")
bAws4Req       == B("aws4_request")

MaxUriLen == 65534          \* the http crate's limit on a URI

NoErr == [rule |-> 0, kind |-> ""]
Err(rule, kind) == [rule |-> rule, kind |-> kind]

------------------------------------------------------------------------------
\* first raw value of a header (HeaderMap::get)
FirstRaw(hdrs, name) == (SelectSeq(hdrs, LAMBDA h : h[1] = name))[1][2]

\* values (decoded) of the query parameter `name`, in order
ParamValues(pairs, name) ==
    LET sel == SelectSeq(pairs, LAMBDA p : p[1] = name) IN [k \in 1..Len(sel) |-> sel[k][2]]

\* content type: media type and charset parameter of the first Content-Type header
MediaType(ct) == TrimAsciiWs(SplitOn(ct, 59)[1])
\* <<has, value>>: first ";name=value" whose trimmed name is "charset" (any case) and has '='
CharsetOf(ct) ==
    LET parts == SplitOn(ct, 59)
        cand  == {k \in 2..Len(parts) :
                    LET nv == Split2(TrimAsciiWs(parts[k]), EQ)
                    IN Len(nv) = 2 /\ LowerSeq(nv[1]) = bCharset}
    IN IF cand = {} THEN <<FALSE, <<>> >>
       ELSE LET k == Min(cand)
            IN <<TRUE, Split2(TrimAsciiWs(parts[k]), EQ)[2]>>

------------------------------------------------------------------------------
\* Authorization header (rules 6a-6d).  a = first normalised Authorization value.
AuthHeaderParse(a0, hdrs) ==
    LET a      == TrimAsciiWs(a0)
        sp     == Split2(a, SP)
        alg    == sp[1]
        params == IF Len(sp) = 2 THEN sp[2] ELSE <<>>
        items  == SelectSeq([k \in 1..Len(SplitOn(params, 44)) |-> TrimAsciiWs(SplitOn(params, 44)[k])],
                            LAMBDA it : it # <<>>)
        kv     == [k \in 1..Len(items) |-> Split2(items[k], EQ)]
        \* last occurrence wins
        Has(key) == \E k \in 1..Len(kv) : Len(kv[k]) = 2 /\ kv[k][1] = key
        Get(key) == LET S == {k \in 1..Len(kv) : kv[k][1] = key}
                    IN kv[Max(S)][2]
        hasDate == HasHeader(hdrs, bXAmzDateL) \/ HasHeader(hdrs, bDateL)
    IN IF alg # bAlgorithm THEN [err |-> Err(6, "IncompleteSignature")]
       ELSE IF \E k \in 1..Len(kv) : Len(kv[k]) # 2 THEN [err |-> Err(7, "IncompleteSignature")]
       ELSE IF ~(Has(bCredential) /\ Has(bSignature) /\ Has(bSignedHeaders) /\ hasDate)
            THEN [err |-> Err(8, "IncompleteSignature")]
       ELSE [err      |-> NoErr,
             cred     |-> Latin1ToUtf8(Get(bCredential)),
             sig      |-> Latin1ToUtf8(Get(bSignature)),
             signed   |-> SortLex([k \in 1..Len(SplitOn(Get(bSignedHeaders), 59)) |->
                                      Latin1ToUtf8(SplitOn(Get(bSignedHeaders), 59)[k])]),
             ts       |-> Latin1ToUtf8(IF HasHeader(hdrs, bXAmzDateL) THEN FirstValue(hdrs, bXAmzDateL)
                                       ELSE FirstValue(hdrs, bDateL)),
             hasToken |-> HasHeader(hdrs, bTokenL),
             token    |-> IF HasHeader(hdrs, bTokenL) THEN Latin1ToUtf8(FirstValue(hdrs, bTokenL)) ELSE <<>>]

\* Query-string carrier (rules 7a-7d).  pairs are decoded; the first value of each name is used.
QueryAuthParse(pairs) ==
    LET V(name) == ParamValues(pairs, name)
        Has(name) == V(name) # <<>>
    IN IF V(bQAlgorithm)[1] # bAlgorithm THEN [err |-> Err(6, "MissingAuthenticationToken")]
       ELSE IF ~(Has(bQCredential) /\ Has(bQSignature) /\ Has(bQSignedHeaders) /\ Has(bQDate))
            THEN [err |-> Err(8, "IncompleteSignature")]
       ELSE [err      |-> NoErr,
             cred     |-> V(bQCredential)[1],
             \* the signature is compared in its once-encoded form (a hex string is unaffected)
             sig      |-> EncodeElem(V(bQSignature)[1]),
             signed   |-> SortLex([k \in 1..Len(SplitOn(V(bQSignedHeaders)[1], 59)) |->
                                      Latin1ToUtf8(SplitOn(V(bQSignedHeaders)[1], 59)[k])]),
             ts       |-> V(bQDate)[1],
             hasToken |-> Has(bQToken),
             token    |-> IF Has(bQToken) THEN V(bQToken)[1] ELSE <<>>]

\* decoded values used as text must be UTF-8 for the reading to be defined
QueryAuthTextOk(pairs) ==
    \A name \in {bQCredential, bQDate, bQToken} :
        ParamValues(pairs, name) # <<>> => Utf8Valid(ParamValues(pairs, name)[1])

------------------------------------------------------------------------------
\* Rule 8 and the service's signed-header requirements (names compared lower-case)
SignedOk(signed, hdrs, cfg) ==
    /\ HasElem(signed, bHost) \/ HasElem(signed, bAuthority)
    /\ \A i \in 1..Len(cfg.always) : HasElem(signed, LowerSeq(cfg.always[i]))
    /\ \A i \in 1..Len(cfg.ifin) :
          HasHeader(hdrs, LowerSeq(cfg.ifin[i])) => HasElem(signed, LowerSeq(cfg.ifin[i]))
    /\ \A i \in 1..Len(cfg.prefix) : \A n \in HeaderNames(hdrs) :
          StartsWith(n, LowerSeq(cfg.prefix[i])) => HasElem(signed, n)

------------------------------------------------------------------------------
\* canonical request up to (not including) the payload hash
CReqPreOf(env, cpath, cquery, signed) ==
    env.method \o <<LF>> \o cpath \o <<LF>> \o cquery \o <<LF>>
      \o HeaderBlock(env.hdrs, signed) \o <<LF>> \o SignedLine(signed) \o <<LF>>

\* plusPath = FALSE: the reference.  TRUE: the library's known reading of '+' in paths (D7).
QG0(env, cfg, plusPath) ==
    LET pathR == CanonPathG(env.path, cfg.s3, plusPath) IN
    IF ~pathR.ok THEN [err |-> Err(1, "InvalidURIPath"), dc |-> FALSE]
    ELSE IF ~QueryOk(env.query) THEN [err |-> Err(2, "MalformedQueryString"), dc |-> FALSE]
    ELSE
    LET hdrs     == env.hdrs
        urlPairs == QueryPairs(env.query)
        hasCT    == HasHeader(hdrs, bContentType)
        ct       == IF hasCT THEN FirstRaw(hdrs, bContentType) ELSE <<>>
        isForm   == cfg.fold /\ hasCT /\ MediaType(ct) = bFormType
        cs       == CharsetOf(ct)
        label    == NormLabel(cs[2])
    IN
    \* ---- form folding ("rule 4b")
    IF cfg.fold /\ hasCT /\ ~isForm /\ LowerSeq(MediaType(ct)) = bFormType
       THEN [err |-> NoErr, dc |-> TRUE]                    \* media type in another letter case: statement silent
    \* a known charset other than UTF-8: what a decodable body means is left open, but an UNDECODABLE body is refused.
    \* Undecodability is decided here for UTF-16 (odd length, lone surrogate) and for the WHATWG "replacement" labels
    \* (any non-empty body); for the remaining legacy charsets nothing is claimed.
    ELSE IF isForm /\ cs[1] /\ label \in Utf16Labels /\ Utf16Undecodable(env.body, label = B("utf-16be"))
       THEN [err |-> Err(3, "InvalidBodyEncoding"), dc |-> FALSE]
    ELSE IF isForm /\ cs[1] /\ label \in ReplacementLabels /\ env.body # <<>>
       THEN [err |-> Err(3, "InvalidBodyEncoding"), dc |-> FALSE]
    \* (an EMPTY body decodes to nothing in every charset: nothing is left open then)
    ELSE IF isForm /\ cs[1] /\ label \in OtherKnownLabels /\ env.body # <<>> THEN [err |-> NoErr, dc |-> TRUE]   \* statement silent
    ELSE IF isForm /\ cs[1] /\ label \notin Utf8Labels \cup OtherKnownLabels THEN [err |-> Err(3, "InvalidBodyEncoding"), dc |-> FALSE]
    ELSE IF isForm /\ ~Utf8Valid(env.body) THEN [err |-> Err(3, "InvalidBodyEncoding"), dc |-> FALSE]
    ELSE IF isForm /\ ~QueryOk(env.body) THEN [err |-> Err(3, "MalformedQueryString"), dc |-> FALSE]
    ELSE
    LET pairs   == IF isForm THEN urlPairs \o QueryPairs(env.body) ELSE urlPairs
        payload == IF isForm THEN <<>> ELSE env.body
        cquery  == CanonQueryOfPairs(pairs)
        cpaths  == pathR.outs
        cpathLen == Len(CHOOSE p \in cpaths : \A p2 \in cpaths : Len(p2) <= Len(p))
        tooLong == isForm /\ cpathLen + (IF cquery = <<>> THEN 0 ELSE 1 + Len(cquery)) > MaxUriLen
    IN
    IF tooLong THEN [err |-> Err(3, "TooLong"), dc |-> FALSE]
    ELSE
    \* ---- carrier (rule 5)
    LET hasAuth == HasHeader(hdrs, bAuthorization)
        hasQAlg == ParamValues(pairs, bQAlgorithm) # <<>>
        common  == [folded |-> isForm, pairs |-> pairs, payload |-> payload, cquery |-> cquery, cpaths |-> cpaths,
                    carrier |-> IF hasAuth /\ hasQAlg THEN "both" ELSE IF hasAuth THEN "hdr"
                                ELSE IF hasQAlg THEN "qry" ELSE "none"]
    IN
    IF hasAuth /\ hasQAlg THEN [err |-> Err(5, "SignatureDoesNotMatch"), dc |-> FALSE] @@ common
    ELSE IF ~hasAuth /\ ~hasQAlg THEN [err |-> Err(5, "MissingAuthenticationToken"), dc |-> FALSE] @@ common
    ELSE IF ~hasAuth /\ ~QueryAuthTextOk(pairs) THEN [err |-> NoErr, dc |-> TRUE] @@ common
    ELSE
    LET ap == IF hasAuth THEN AuthHeaderParse(FirstValue(hdrs, bAuthorization), hdrs) ELSE QueryAuthParse(pairs) IN
    IF ap.err.rule # 0 THEN [err |-> ap.err, dc |-> FALSE] @@ common
    ELSE
    LET c2 == common @@ [cred |-> ap.cred, sig |-> ap.sig,
                         signed |-> ap.signed, ts |-> ap.ts, hasToken |-> ap.hasToken, token |-> ap.token] IN
    \* ---- rule 8
    IF ~SignedOk(ap.signed, hdrs, cfg) THEN [err |-> Err(9, "SignatureDoesNotMatch"), dc |-> FALSE] @@ c2
    ELSE
    \* ---- rule 9
    LET tp == Parse(ap.ts) IN
    IF tp.class = "reject" THEN [err |-> Err(10, "IncompleteSignature"), dc |-> FALSE] @@ c2
    ELSE IF ~tp.hasInst THEN [err |-> NoErr, dc |-> TRUE] @@ c2
    ELSE
    LET inst  == tp.inst
        tsdc  == tp.class = "dontcare"      \* may also be refused with the rule-9 error
        parts == SplitOn(ap.cred, SLASH)
        creqPre(cpath) == CReqPreOf(env, cpath, cquery, ap.signed)
        c3 == c2 @@ [inst |-> inst, tsdc |-> tsdc, creqPres |-> {creqPre(p) : p \in cpaths}]
    IN
    \* ---- rules 10, 11
    IF Expired(inst, cfg.now) THEN [err |-> Err(11, "SignatureDoesNotMatch"), dc |-> FALSE] @@ c3
    ELSE IF TooNew(inst, cfg.now) THEN [err |-> Err(12, "SignatureDoesNotMatch"), dc |-> FALSE] @@ c3
    \* ---- rule 12
    ELSE IF Len(parts) # 5 THEN [err |-> Err(13, "IncompleteSignature"), dc |-> FALSE] @@ c3
    \* ---- rule 13
    ELSE IF ~(parts[3] = cfg.region /\ parts[4] = cfg.service /\ parts[5] = bAws4Req /\ parts[2] = ScopeDate(inst))
         THEN [err |-> Err(14, "SignatureDoesNotMatch"), dc |-> FALSE] @@ c3
    ELSE [err |-> NoErr, dc |-> FALSE] @@ c3 @@
         [akid   |-> parts[1],
          pdate  |-> <<Fields(inst)[1], Fields(inst)[2], Fields(inst)[3]>>,
          stsPre |-> bAlgorithm \o <<LF>> \o Compact(inst) \o <<LF>>
                     \o Join(SubSeq(parts, 2, 5), <<SLASH>>) \o <<LF>>]

\* every field is always present (fields that are not reached carry these defaults)
QDefaults == [folded |-> FALSE, pairs |-> <<>>, payload |-> <<>>, cquery |-> <<>>, cpaths |-> {<<47>>},
              carrier |-> "hdr", cred |-> <<>>, sig |-> <<>>, signed |-> <<>>, ts |-> <<>>, hasToken |-> FALSE,
              token |-> <<>>, inst |-> <<0, 0, 0>>, tsdc |-> FALSE, creqPres |-> {}, akid |-> <<>>,
              pdate |-> <<0, 0, 0>>, stsPre |-> <<>>]
QG(env, cfg, plusPath) == QG0(env, cfg, plusPath) @@ QDefaults
Q(env, cfg) == QG(env, cfg, FALSE)

\* Internal rule index -> the rule name of the documented order
\*  1 path, 2 query, 3 form body, 5 carrier, 6 algorithm, 7 parameter syntax, 8 missing parameters,
\*  9 signed-header requirements, 10 date format, 11 expired, 12 not yet valid, 13 credential arity,
\*  14 credential scope, 15 key lookup, 16 signature
=============================================================================
