-------------------------------- MODULE Wire --------------------------------
(***************************************************************************)
(* The reference SIGNER and the wire form of requests.                     *)
(*                                                                         *)
(* A logical request L says what a client wants to send and how it        *)
(* authenticates; Mk(L) renders it on the wire with the placeholder       *)
(* {SIG} where the signature goes; Directive(r, secret) is the symbolic    *)
(* term for that signature: which bytes are hashed under which key.  The  *)
(* harness only evaluates the term and substitutes it.                     *)
(***************************************************************************)
EXTENDS Request

bSIG == B("{SIG}")

\* what the http crate will hand the library for a wire request built here
EnvOfWire(w) ==
    LET pq == Split2(OriginForm(w.uri), 63) IN
    [method |-> w.method, path |-> pq[1], query |-> IF Len(pq) = 2 THEN pq[2] ELSE <<>>,
     hdrs |-> [i \in 1..Len(w.headers) |-> <<LowerSeq(w.headers[i][1]), w.headers[i][2]>>],
     body |-> w.body]

\* percent-encode every byte that is not unreserved (what a signer does to query values)
Enc(bs) == EncodeElem(bs)

DefaultL ==
    [method |-> B("GET"), path |-> B("/"), query |-> <<>>,
     hdrs |-> << <<B("Host"), B("example.amazonaws.com")>> >>,
     body |-> <<>>, carrier |-> "hdr",
     ts |-> B("20150830T123600Z"), dateHeader |-> B("X-Amz-Date"),
     signed |-> <<B("host"), B("x-amz-date")>>,       \* as listed by the signer (lower-case, sorted)
     hasToken |-> FALSE, token |-> <<>>,
     akid |-> B("AKIDEXAMPLE"),
     scope |-> <<B("20150830"), B("us-east-1"), B("service"), B("aws4_request")>>,
     alg |-> bAlgorithm,
     paramSep |-> B(", ")]

Credential(L) == Join(<<L.akid>> \o L.scope, <<SLASH>>)

AuthValue(L) ==
    L.alg \o <<SP>> \o B("Credential=") \o Credential(L) \o L.paramSep
          \o B("SignedHeaders=") \o Join(L.signed, <<59>>) \o L.paramSep
          \o B("Signature=") \o bSIG

\* X-Amz-* query parameters of the query-string carrier, in the conventional order
AuthQuery(L) ==
    B("X-Amz-Algorithm=") \o Enc(L.alg)
      \o B("&X-Amz-Credential=") \o Enc(Credential(L))
      \o B("&X-Amz-Date=") \o Enc(L.ts)
      \o (IF L.hasToken THEN B("&X-Amz-Security-Token=") \o Enc(L.token) ELSE <<>>)
      \o B("&X-Amz-SignedHeaders=") \o Enc(Join(L.signed, <<59>>))
      \o B("&X-Amz-Signature=") \o bSIG

Mk(L) ==
    IF L.carrier = "hdr"
    THEN [method |-> L.method,
          uri |-> L.path \o (IF L.query = <<>> THEN <<>> ELSE <<63>> \o L.query),
          headers |-> L.hdrs \o << <<L.dateHeader, L.ts>> >>
                       \o (IF L.hasToken THEN << <<B("X-Amz-Security-Token"), L.token>> >> ELSE <<>>)
                       \o << <<B("Authorization"), AuthValue(L)>> >>,
          body |-> L.body]
    ELSE [method |-> L.method,
          uri |-> L.path \o <<63>> \o (IF L.query = <<>> THEN <<>> ELSE L.query \o <<AMP>>) \o AuthQuery(L),
          headers |-> L.hdrs,
          body |-> L.body]

\* the query-string carrier signs only what it lists; by default just host
QryL(L) == [L EXCEPT !.carrier = "qry", !.signed = <<B("host")>>]

\* The symbolic signature of the request as read by the reference (r = Q(EnvOfWire(w), cfg)),
\* under the scope the CREDENTIAL names (a conforming signer's scope is the server's; an attacker
\* or a client of another region signs with its own scope's key).
Shortest(S) == CHOOSE x \in S : \A y \in S : Len(x) <= Len(y)
CanSign(r) == ~r.dc /\ r.err.rule \notin 1..10
Directive(r, secret) ==
    LET parts == SplitOn(r.cred, SLASH)
        part(k) == IF Len(parts) >= k THEN parts[k] ELSE <<>>
    IN [creqPre |-> Shortest(r.creqPres), payload |-> r.payload,
        stsPre  |-> bAlgorithm \o <<LF>> \o Compact(r.inst) \o <<LF>> \o Join(Tail(parts), <<SLASH>>) \o <<LF>>,
        secret  |-> secret, kdate |-> part(2), region |-> part(3), service |-> part(4),
        payloadhex |-> <<>>, rawkey |-> <<>>]
=============================================================================
