----------------------------- MODULE MC_UriCanon -----------------------------
(***************************************************************************)
(* Laws of the reference canonicalisation, checked by TLC on the           *)
(* specification itself over the same finite spaces that are replayed     *)
(* into the library (Gen_Fn).  They are what C09 / C10 call "normal form",*)
(* "idempotent", "insensitive to spelling", "function of the multiset".   *)
(***************************************************************************)
EXTENDS Gen_Fn, UriCanon

------------------------------------------------------------------------------
\* respellings of a whole path / query: flip the case of hex digits in escapes;
\* needlessly escape the first unreserved byte
FlipHex(s) == [i \in 1..Len(s) |->
                 IF ((i > 1 /\ s[i-1] = PCT) \/ (i > 2 /\ s[i-2] = PCT)) /\ HexVal(s[i]) >= 10
                 THEN (IF IsUpper(s[i]) THEN s[i] + 32 ELSE s[i] - 32) ELSE s[i]]
EscapeFirstUnreserved(s) ==
    LET U == {i \in 1..Len(s) : /\ IsUnreserved(s[i]) /\ s[i] # DOT
                                /\ ~((i > 1 /\ s[i-1] = PCT) \/ (i > 2 /\ s[i-2] = PCT))}
    IN IF U = {} THEN s
       ELSE LET i == CHOOSE j \in U : \A k \in U : j <= k
            IN SubSeq(s, 1, i - 1) \o <<PCT, HexLo(s[i] \div 16), HexLo(s[i] % 16)>> \o SubSeq(s, i + 1, Len(s))

\* output alphabet of a once-encoded string: unreserved, the separators given, or %HH with
\* upper-case hex denoting a byte that is not unreserved
OnceEncoded(o, seps) ==
    \A i \in 1..Len(o) :
        LET covered == (i > 1 /\ o[i-1] = PCT) \/ (i > 2 /\ o[i-2] = PCT) IN
        \/ covered
        \/ IsUnreserved(o[i]) \/ o[i] \in seps
        \/ /\ o[i] = PCT /\ i + 2 <= Len(o)
           /\ HexVal(o[i+1]) >= 0 /\ HexVal(o[i+2]) >= 0
           /\ ~IsLowerC(o[i+1]) /\ ~IsLowerC(o[i+2])
           /\ ~IsUnreserved(16 * HexVal(o[i+1]) + HexVal(o[i+2]))

\* independent characterisation of "climbs above the root": some prefix of the effective
\* segments has more '..' than ordinary segments
Eff(path) == SelectSeq([k \in 1..Len(RawSegs(path)) |-> DecodeElem(RawSegs(path)[k], FALSE)],
                       LAMBDA s : s # <<>> /\ s # bDot)
RECURSIVE Depths(_, _, _)
Depths(segs, k, d) == IF k > Len(segs) THEN {d}
                      ELSE LET nd == IF segs[k] = bDotDot THEN d - 1 ELSE d + 1
                           IN {d} \cup (IF nd < 0 THEN {nd} ELSE Depths(segs, k + 1, nd))
Climbs(path) == \E d \in Depths(Eff(path), 1, 0) : d < 0

CountByte(s, b) == Cardinality({i \in 1..Len(s) : s[i] = b})

PathLaws ==
    (IsCase /\ Case.op = "path") =>
    LET r == CanonPath(Case.p, Case.s3) IN
    /\ \* exact failure set
       r.ok <=> /\ Case.p = <<>> \/ Case.p[1] = SLASH
                /\ \A k \in 1..Len(RawSegs(Case.p)) : EscapesOk(RawSegs(Case.p)[k])
                /\ Case.s3 \/ ~Climbs(Case.p)
    /\ r.ok =>
         /\ \A o \in r.outs :
              /\ OnceEncoded(o, {SLASH})                             \* normal form
              /\ o[1] = SLASH
              /\ CanonPath(o, Case.s3) = [ok |-> TRUE, outs |-> {o}]    \* idempotent
              /\ Case.s3 => CountByte(o, SLASH) = CountByte(Case.p, SLASH) \* S3 keeps every segment
              /\ ~Case.s3 => \A i \in 1..(Len(o) - 1) : ~(o[i] = SLASH /\ o[i+1] = SLASH)
         /\ CanonPath(FlipHex(Case.p), Case.s3) = r                       \* hex case irrelevant
         /\ CanonPath(EscapeFirstUnreserved(Case.p), Case.s3) = r         \* needless escapes irrelevant
    /\ ~r.ok => ~CanonPath(FlipHex(Case.p), Case.s3).ok

------------------------------------------------------------------------------
Permutations3(s) ==  \* all reorderings of a sequence of length <= 3
    {[i \in 1..Len(s) |-> s[f[i]]] : f \in {g \in [1..Len(s) -> 1..Len(s)] : \A a, b \in 1..Len(s) : a # b => g[a] # g[b]}}

Sorted(pairs) == \A i \in 1..(Len(pairs) - 1) : PairLeq(pairs[i], pairs[i+1])

\* parse a canonical query string back into encoded pairs
BackPairs(out) == IF out = <<>> THEN <<>>
                  ELSE [k \in 1..Len(SplitOn(out, AMP)) |->
                          LET nv == Split2(SplitOn(out, AMP)[k], EQ) IN <<nv[1], IF Len(nv) = 2 THEN nv[2] ELSE <<>> >>]

QueryLawsOf(q, canon(_)) ==
    LET r == CanonQuery(q) IN
    r.ok =>
      LET out   == canon(q)
          comps == QueryComponents(q)
          pairs == QueryPairs(q)
          kept  == SelectSeq(pairs, LAMBDA p : p[1] # bXAmzSignature)
          back  == BackPairs(out)
      IN /\ OnceEncoded(out, {AMP, EQ})
         /\ Sorted(back)                                              \* by encoded name, then value
         /\ Len(back) = Len(kept)                                     \* nothing dropped or invented
         /\ PairBag([k \in 1..Len(back) |-> <<DecodeElem(back[k][1], FALSE), DecodeElem(back[k][2], FALSE)>>])
              = PairBag(kept)
         /\ \A perm \in Permutations3(comps) : canon(Join(perm, <<AMP>>)) = out    \* order irrelevant
         /\ canon(Join(comps, <<AMP, AMP>>)) = out                               \* '&&' irrelevant
         /\ canon(<<AMP>> \o q \o <<AMP>>) = out
         /\ canon(FlipHex(q)) = out

CanonQueryOut(qs) == CanonQuery(qs).out
QueryLaws == (IsCase /\ Case.op = "query") => QueryLawsOf(Case.q, CanonQueryOut)
\* negative control: ordering by the rendered "name=value" string is NOT the specified order
BrokenQueryLaws == (IsCase /\ Case.op = "query") => QueryLawsOf(Case.q, CanonQueryRenderedSort)

ElemLaws ==
    (IsCase /\ Case.op = "elem" /\ EscapesOk(Case.el)) =>
        LET n == NormElem(Case.el, Case.plus) IN
        /\ OnceEncoded(n, {})
        /\ NormElem(n, Case.plus) = n
        /\ DecodeElem(n, FALSE) = DecodeElem(Case.el, Case.plus)
=============================================================================
