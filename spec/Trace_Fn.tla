------------------------------ MODULE Trace_Fn ------------------------------
(***************************************************************************)
(* Trace validation of function-level observations.                        *)
(* Each line of the ndjson trace is one call of one public function of    *)
(* the library, recorded by the harness with its input and what came back.*)
(* The specification re-evaluates the reference definition on the         *)
(* recorded INPUT and accepts the event only if the recorded OBSERVATION  *)
(* is one the specification allows.  A rejected event does not stop the   *)
(* validation (the rest of the trace must still be examined): it is       *)
(* printed as MISMATCH (or KNOWN <finding>) and counted; the trace is     *)
(* accepted iff every line was consumed and nothing was counted.          *)
(***************************************************************************)
EXTENDS Bytes, UriCanon, Headers, Iso8601, KeyTerms, Errors, Json, IOUtils

Rec == ndJsonDeserialize(IOEnv.TRACE)

VARIABLE l

------------------------------------------------------------------------------
\* Error classification recorded by the harness must match the fixed table.
IsErr(e, kind, status) ==
    e.res = "err" /\ e.kind = kind /\ e.code = kind /\ e.status = status

AcceptPath(e) ==
    LET r == CanonPath(e.p, e.s3) IN
    IF r.ok THEN e.res = "ok" /\ e.out \in r.outs
    ELSE IsErr(e, "InvalidURIPath", 400)

KnownPath(e) ==
    /\ HasLiteralPlus(e.p)
    /\ LET r == KF_PlusInPath(e.p, e.s3) IN
       IF r.ok THEN e.res = "ok" /\ e.out \in r.outs
       ELSE IsErr(e, "InvalidURIPath", 400)

AcceptQuery(e) ==
    LET r == CanonQuery(e.q) IN
    IF r.ok THEN e.res = "ok" /\ e.out = r.out
    ELSE IsErr(e, "MalformedQueryString", 400)

AcceptElem(e) ==
    IF EscapesOk(e.el) THEN e.res = "ok" /\ e.out = NormElem(e.el, e.plus)
    ELSE IsErr(e, IF e.plus THEN "MalformedQueryString" ELSE "InvalidURIPath", 400)

\* the same known deviation seen through the path-component function
KnownElem(e) ==
    /\ ~e.plus /\ (\E i \in 1..Len(e.el) : e.el[i] = PLUS)
    /\ IF EscapesOk(e.el) THEN e.res = "ok" /\ e.out = NormElem(e.el, TRUE)
       ELSE IsErr(e, "InvalidURIPath", 400)

AcceptHval(e) == e.res = "ok" /\ e.out = NormValue(e.v)

\* C16: timestamp parsing observed through the authenticator the library builds
\* e.inst = <<days from CE, second of day, nanosecond>> of the UTC instant the library derived,
\* e.civil = its <<y, m, d, hh, mi, ss>>, e.stsline = the timestamp line of the string-to-sign
TsInstOk(e, inst) ==
    /\ e.inst = inst
    /\ e.civil = Fields(inst)             \* Civil.tla agrees with the library's calendar
    /\ e.stsline = Compact(inst)
    /\ e.scopedate = ScopeDate(inst)
AcceptTs(e) ==
    LET r == Parse(e.s) IN
    CASE r.class = "accept"   -> e.res = "ok" /\ TsInstOk(e, r.inst)
      [] r.class = "reject"   -> IsErr(e, "IncompleteSignature", 400)
      [] r.class = "dontcare" -> \/ IsErr(e, "IncompleteSignature", 400)
                                 \/ e.res = "ok" /\ (r.hasInst => TsInstOk(e, r.inst))

\* C06: e.secret, e.cap; for cap = 44 and accepted secrets the read-back secret, the four
\* harness-evaluated HMAC steps (e.oracle) and the library's keys along every method path
OracleWired(e) ==
    LET o == e.oracle IN
    /\ Len(o) = 4
    /\ o[1].key = bAWS4 \o e.secret /\ o[1].msg = DateYMD(e.date[1], e.date[2], e.date[3])
    /\ o[2].key = o[1].out /\ o[2].msg = e.region
    /\ o[3].key = o[2].out /\ o[3].msg = e.service
    /\ o[4].key = o[3].out /\ o[4].msg = bAws4Request
AcceptKey(e) ==
    IF ~FromStrAccepts(e.secret, e.cap) THEN e.res = "err" /\ e.kind = "KeyTooLong"
    ELSE /\ e.res = "ok"
         /\ e.cap = 44 =>
              /\ e.readback = e.secret
              /\ OracleWired(e)
              /\ \A i \in 1..Len(e.kdate)    : e.kdate[i]    = e.oracle[1].out
              /\ \A i \in 1..Len(e.kregion)  : e.kregion[i]  = e.oracle[2].out
              /\ \A i \in 1..Len(e.kservice) : e.kservice[i] = e.oracle[3].out
              /\ \A i \in 1..Len(e.ksigning) : e.ksigning[i] = e.oracle[4].out
              /\ Len(e.kdate) = 1 /\ Len(e.kregion) = 2 /\ Len(e.kservice) = 3 /\ Len(e.ksigning) = 4

\* C08 size ladder: POST <path> with a form body "a=" + n x 'b', folding on, no authentication.
\* The rebuilt URI is path?a=bbb...; beyond the http crate's limit the request must be refused with a
\* 400-class error (never a panic); otherwise it proceeds and is refused for lack of any carrier.
MaxUri == 65534
AcceptFoldSize(e) ==
    IF e.fold /\ Len(e.path) + 1 + 2 + e.n > MaxUri
    THEN e.res = "err" /\ e.kind \in AllKinds \ {"MissingAuthenticationToken", "IncompleteSignature"}
         /\ Status(e.kind) = 400 /\ e.status = 400 /\ e.code = Code(e.kind)
    ELSE IsErr(e, "MissingAuthenticationToken", 400)

\* C13: kind -> code / status, for every variant and every conversion into SignatureError
AcceptErr(e) ==
    LET k == CASE e.via = "foreign" -> "InternalServiceError" [] e.via = "io" -> "IO" [] OTHER -> e.kind_in IN
    /\ e.res = "err" /\ e.kind = k /\ e.code = Code(k) /\ e.status = Status(k)
    /\ e.status \in {400, 403, 500}

AcceptBuilders(e) ==
    /\ e.res = "ok"
    \* a builder with required fields missing returns a value or an error - never a panic (which fields are
    \* required, and their defaults, are not part of the property)
    /\ \A i \in 1..Len(e.outs) : e.outs[i].res # "panic"
    /\ \A i \in 1..Len(e.outs) :
          e.outs[i].name \in {"GetSigningKeyRequest::full", "SignatureOptions"} => e.outs[i].res = "ok"

\* C05: the dynamic requirements container is, for validation purposes, a case-insensitive set
LowerSet(xs) == {LowerSeq(xs[i]) : i \in 1..Len(xs)}
RECURSIVE ApplyOps(_, _, _, _)
ApplyOps(S, ops, k, list) ==
    IF k > Len(ops) THEN S
    ELSE ApplyOps(IF ops[k].list # list THEN S
                  ELSE IF ops[k].op = "add" THEN S \cup {LowerSeq(ops[k].name)}
                  ELSE S \ {LowerSeq(ops[k].name)}, ops, k + 1, list)
AcceptVreqs(e) ==
    /\ e.res = "ok"
    /\ LowerSet(e.got_always) = ApplyOps(LowerSet(e.always), e.ops, 1, "always")
    /\ LowerSet(e.got_ifin)   = ApplyOps(LowerSet(e.ifin), e.ops, 1, "ifin")
    /\ LowerSet(e.got_prefix) = ApplyOps(LowerSet(e.prefix), e.ops, 1, "prefix")

\* C17: no rendering of a key-bearing public value contains key material
AcceptLeakFn(e) == e.res = "ok" /\ \A i \in 1..Len(e.renders) : e.renders[i].taints = <<>>

\* byte-level helpers: white space for trimming is SP, HT, LF, FF, CR; Latin-1 bytes become the UTF-8 of the same
\* code point
TrimWs == {32, 9, 10, 12, 13}
HelperRef(f, b) ==
    LET keep == {i \in 1..Len(b) : b[i] \notin TrimWs}
        lo == IF f = "trim_end" \/ keep = {} THEN 1 ELSE Min(keep)
        hi == IF f = "trim_start" THEN Len(b) ELSE IF keep = {} THEN 0 ELSE Max(keep)
    IN CASE f \in {"trim", "trim_start", "trim_end"} ->
              (IF keep = {} THEN <<>> ELSE SubSeq(b, lo, hi))
         [] f = "hex" -> <<HexUp(b[1] \div 16), HexUp(b[1] % 16)>>
         [] f = "unres" -> <<IF IsUnreserved(b[1]) THEN 1 ELSE 0>>
         [] f = "latin1" -> Cat([i \in 1..Len(b) |-> IF b[i] < 128 THEN <<b[i]>> ELSE <<192 + (b[i] \div 64), 128 + (b[i] % 64)>>])
\* binding part: a value, never a panic (C08).  What the helpers compute is described by HelperRef; a deviation is
\* printed for the reader but is no property violation by itself (its consequences show end to end)
AcceptHelper(e) == e.res = "ok" /\ (e.out = HelperRef(e.f, e.b) \/ PrintT(<<"INFO helper deviates from its description", e.f, e.b, e.out>>))

Accept(e) ==
    CASE e.op = "path"  -> AcceptPath(e)
      [] e.op = "helper" -> AcceptHelper(e)
      [] e.op = "leakfn" -> AcceptLeakFn(e)
      [] e.op = "foldsize" -> AcceptFoldSize(e)
      [] e.op = "err"   -> AcceptErr(e)
      [] e.op = "builders" -> AcceptBuilders(e)
      [] e.op = "vreqs" -> AcceptVreqs(e)
      [] e.op = "hval"  -> AcceptHval(e)
      [] e.op = "ts"    -> AcceptTs(e)
      [] e.op = "key"   -> AcceptKey(e)
      [] e.op = "query" -> AcceptQuery(e)
      [] e.op = "elem"  -> AcceptElem(e)
      [] OTHER -> FALSE

\* "" when the deviation is not a listed known finding
KnownId(e) ==
    CASE e.op = "path" /\ KnownPath(e) -> "D7"
      [] e.op = "elem" /\ KnownElem(e) -> "D7"
      [] OTHER -> ""

Expected(e) ==
    CASE e.op = "path"  -> CanonPath(e.p, e.s3)
      [] e.op = "query" -> CanonQuery(e.q)
      [] e.op = "elem"  -> IF EscapesOk(e.el) THEN NormElem(e.el, e.plus) ELSE "error"
      [] e.op = "hval"  -> NormValue(e.v)
      [] e.op = "helper" -> HelperRef(e.f, e.b)
      [] e.op = "ts"    -> Parse(e.s)
      [] e.op = "key"   -> [accepts |-> FromStrAccepts(e.secret, e.cap)]
      [] e.op = "foldsize" -> [tooLong |-> e.fold /\ Len(e.path) + 3 + e.n > MaxUri]
      [] OTHER -> "?"

Count(reg) == TLCSet(reg, TLCGet(reg) + 1)

\* Verdict per line, evaluated once for the whole trace as a value (TLC re-evaluates LET definitions at every
\* reference inside actions): "ok", "inadm", the id of a known finding, or "mismatch"
Verdict(e) ==
    IF e.res = "inadm" THEN "inadm"          \* the environment refused the input: not an observation
    ELSE IF Accept(e) THEN "ok"
    ELSE IF KnownId(e) # "" THEN KnownId(e)
    ELSE "mismatch"
Verdicts == [i \in 1..Len(Rec) |-> Verdict(Rec[i])]
V(i) == TLCGet(20)[i]

Check ==
    CASE V(l) = "ok" -> TRUE
      [] V(l) = "inadm" -> Count(3)
      [] V(l) = "mismatch" -> PrintT(<<"MISMATCH", l, ToJson(Expected(Rec[l]))>>) /\ Count(1)
      [] OTHER -> PrintT(<<"KNOWN", V(l), l>>) /\ Count(2)

TraceInit == l = 1 /\ TLCSet(1, 0) /\ TLCSet(2, 0) /\ TLCSet(3, 0) /\ TLCSet(21, FALSE)
\* evaluated by the first step, on a worker thread (stack sized by -Xss; the initial predicate runs on the main thread)
EnsureVerdicts == TLCGet(21) \/ (TLCSet(20, TLCEval(Verdicts)) /\ TLCSet(21, TRUE))
TraceNext == l <= Len(Rec) /\ EnsureVerdicts /\ Check /\ l' = l + 1
TraceSpec == TraceInit /\ [][TraceNext]_l

TraceAccepted ==
    /\ PrintT(<<"STATS", Len(Rec), TLCGet(1), TLCGet(2), TLCGet(3)>>)
    /\ TLCGet("stats").diameter - 1 = Len(Rec)
    /\ TLCGet(1) = 0
=============================================================================
