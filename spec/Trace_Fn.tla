------------------------------ MODULE Trace_Fn ------------------------------
(***************************************************************************)
(* Trace validation of function-level observations.                        *)
(* Each line of the ndjson trace is one call of one public function of    *)
(* the library, recorded by the harness with its input and what came back.*)
(* The specification re-evaluates the reference definition on the         *)
(* recorded INPUT and accepts the event only if the recorded OBSERVATION  *)
(* is one the specification allows.  A rejected event does not stop the   *)
(* validation (the rest of the trace must still be examined): it is       *)
(* printed as MISMATCH (or KNOWN <finding>) and counted; the trace is     *)
(* accepted iff every line was consumed and nothing was counted.          *)
(***************************************************************************)
EXTENDS Bytes, UriCanon, Json, IOUtils

Rec == ndJsonDeserialize(IOEnv.TRACE)

VARIABLE l

------------------------------------------------------------------------------
\* Error classification recorded by the harness must match the fixed table.
IsErr(e, kind, status) ==
    e.res = "err" /\ e.kind = kind /\ e.code = kind /\ e.status = status

AcceptPath(e) ==
    LET r == CanonPath(e.p, e.s3) IN
    IF r.ok THEN e.res = "ok" /\ e.out \in r.outs
    ELSE IsErr(e, "InvalidURIPath", 400)

KnownPath(e) ==
    /\ HasLiteralPlus(e.p)
    /\ LET r == KF_PlusInPath(e.p, e.s3) IN
       IF r.ok THEN e.res = "ok" /\ e.out \in r.outs
       ELSE IsErr(e, "InvalidURIPath", 400)

AcceptQuery(e) ==
    LET r == CanonQuery(e.q) IN
    IF r.ok THEN e.res = "ok" /\ e.out = r.out
    ELSE IsErr(e, "MalformedQueryString", 400)

AcceptElem(e) ==
    IF EscapesOk(e.el) THEN e.res = "ok" /\ e.out = NormElem(e.el, e.plus)
    ELSE IsErr(e, IF e.plus THEN "MalformedQueryString" ELSE "InvalidURIPath", 400)

\* the same known deviation seen through the path-component function
KnownElem(e) ==
    /\ ~e.plus /\ (\E i \in 1..Len(e.el) : e.el[i] = PLUS)
    /\ IF EscapesOk(e.el) THEN e.res = "ok" /\ e.out = NormElem(e.el, TRUE)
       ELSE IsErr(e, "InvalidURIPath", 400)

Accept(e) ==
    CASE e.op = "path"  -> AcceptPath(e)
      [] e.op = "query" -> AcceptQuery(e)
      [] e.op = "elem"  -> AcceptElem(e)
      [] OTHER -> FALSE

\* "" when the deviation is not a listed known finding
KnownId(e) ==
    CASE e.op = "path" /\ KnownPath(e) -> "D7"
      [] e.op = "elem" /\ KnownElem(e) -> "D7"
      [] OTHER -> ""

Expected(e) ==
    CASE e.op = "path"  -> CanonPath(e.p, e.s3)
      [] e.op = "query" -> CanonQuery(e.q)
      [] e.op = "elem"  -> IF EscapesOk(e.el) THEN NormElem(e.el, e.plus) ELSE "error"
      [] OTHER -> "?"

Count(reg) == TLCSet(reg, TLCGet(reg) + 1)

Check(e) ==
    IF e.res = "inadm" THEN Count(3)          \* the environment refused the input: not an observation
    ELSE IF Accept(e) THEN TRUE
    ELSE IF KnownId(e) # "" THEN PrintT(<<"KNOWN", KnownId(e), l>>) /\ Count(2)
    ELSE PrintT(<<"MISMATCH", l, ToJson(Expected(e))>>) /\ Count(1)

TraceInit == l = 1 /\ TLCSet(1, 0) /\ TLCSet(2, 0) /\ TLCSet(3, 0)
TraceNext == l <= Len(Rec) /\ Check(Rec[l]) /\ l' = l + 1
TraceSpec == TraceInit /\ [][TraceNext]_l

TraceAccepted ==
    /\ PrintT(<<"STATS", Len(Rec), TLCGet(1), TLCGet(2), TLCGet(3)>>)
    /\ TLCGet("stats").diameter - 1 = Len(Rec)
    /\ TLCGet(1) = 0
=============================================================================
