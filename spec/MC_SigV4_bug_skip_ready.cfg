SPECIFICATION Spec
CONSTANT Bug = "skip_ready"
CONSTANT MaxDefects = 2
CONSTANT MaxValidations = 1
CONSTANT AllowForever = FALSE
CONSTANT MaxPending = 1
INVARIANT CallOnlyWhenReady
CHECK_DEADLOCK FALSE
