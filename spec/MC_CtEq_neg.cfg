SPECIFICATION Spec
CONSTANT N = 3
CONSTANT Alphabet = {0, 1, 2}
CONSTANT Comparator = "early"
INVARIANT NonInterference
CHECK_DEADLOCK FALSE
