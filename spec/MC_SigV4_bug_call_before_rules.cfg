SPECIFICATION Spec
CONSTANT Bug = "call_before_rules"
CONSTANT MaxDefects = 2
CONSTANT MaxValidations = 1
CONSTANT AllowForever = FALSE
CONSTANT MaxPending = 1
INVARIANT ProviderLast
CHECK_DEADLOCK FALSE
