---------------------------- MODULE CivilLemma ----------------------------
(* Unbounded-integer lemmas about instant triples (checked by Apalache, SMT):                    *)
(*  - comparing <<day, second, nanosecond>> triples lexicographically is comparing total ns;    *)
(*  - AddSec normalises correctly, so the freshness window on triples is the window on total ns. *)
EXTENDS Integers

CONSTANTS
    \* @type: Int;
    d1,
    \* @type: Int;
    s1,
    \* @type: Int;
    n1,
    \* @type: Int;
    d2,
    \* @type: Int;
    s2,
    \* @type: Int;
    n2,
    \* @type: Int;
    k

VARIABLE
    \* @type: Int;
    x

Total(d, s, n) == (d * 86400 + s) * 1000000000 + n

Before(ad, as, an, bd, bs, bn) ==
    \/ ad < bd
    \/ ad = bd /\ as < bs
    \/ ad = bd /\ as = bs /\ an < bn

\* floor division by 86400 for possibly negative t, as in Civil!AddSec
FloorDays(t) == IF t >= 0 THEN t \div 86400 ELSE -(((-t) + 86399) \div 86400)

ConstInit ==
    /\ d1 \in Int /\ d2 \in Int /\ k \in Int
    /\ s1 \in 0..86399 /\ s2 \in 0..86399
    /\ n1 \in 0..999999999 /\ n2 \in 0..999999999
    /\ k > -1000000 /\ k < 1000000

Init == x = 0
Next == x' = x

CompareLemma == Before(d1, s1, n1, d2, s2, n2) <=> Total(d1, s1, n1) < Total(d2, s2, n2)

AddSecLemma ==
    LET t == s1 + k
        dd == FloorDays(t)
        nd == d1 + dd
        ns == t - dd * 86400
    IN /\ ns >= 0 /\ ns <= 86399
       /\ Total(nd, ns, n1) = Total(d1, s1, n1) + k * 1000000000

\* the inclusive window on triples is the inclusive window on total nanoseconds
WindowLemma ==
    LET lo == s2 - 900
        ld == FloorDays(lo)
        hi == s2 + 900
        hd == FloorDays(hi)
        freshTriples == /\ ~Before(d1, s1, n1, d2 + ld, lo - ld * 86400, n2)
                        /\ ~Before(d2 + hd, hi - hd * 86400, n2, d1, s1, n1)
        freshTotal == /\ Total(d2, s2, n2) - 900 * 1000000000 <= Total(d1, s1, n1)
                      /\ Total(d1, s1, n1) <= Total(d2, s2, n2) + 900 * 1000000000
    IN freshTriples <=> freshTotal

Lemmas == CompareLemma /\ AddSecLemma /\ WindowLemma
=============================================================================
