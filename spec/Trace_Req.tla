------------------------------ MODULE Trace_Req ------------------------------
(***************************************************************************)
(* Trace validation of whole validations (sigv4_validate_request).         *)
(*                                                                         *)
(* A case is a contiguous block of events:                                 *)
(*   Begin      what the library was given (as the http crate presents    *)
(*              it), the server configuration, the provider script, the   *)
(*              harness's SHA/HMAC evaluations (oracle table)              *)
(*   PollReady / Call / PollFuture   what the instrumented provider saw    *)
(*   End        what the library returned                                  *)
(*   StageCanon / StageParams / StageAuth / StagePre / StageSts            *)
(*              the same request pushed stage by stage through the crate's *)
(*              `unstable` API, with the state each stage exposes          *)
(*                                                                         *)
(* Begin computes r = Request!Q(env, cfg) from the recorded bytes and      *)
(* takes SigV4!BeginRun with the request view derived from r; provider    *)
(* events are SigV4's provider actions; End is (Compare then) Return.     *)
(* Stage events do not move the machine; their exposed state must equal r.*)
(* A rejected event is printed (MISMATCH), the rest of that case skipped, *)
(* and validation resumes at the next Begin.                               *)
(***************************************************************************)
EXTENDS Request, SigV4, Json, IOUtils

Rec == ndJsonDeserialize(IOEnv.TRACE)
\* "none", or the id of a known finding whose deviant reading is to be used where its
\* matcher applies (second pass over cases that were rejected under the reference reading)
KF == IOEnv.KF

VARIABLES l,      \* next line of the trace
          r,      \* Q(env, cfg) of the case in progress
          cur,    \* its Begin event
          skip,   \* TRUE: rest of this case is not examined (after a MISMATCH or for don't-care cases)
          cpath,  \* canonical path the library chose among the admitted ones
          creqv,   \* the specification's canonical request / string to sign of the case (computed once at Begin;
          stsv     \*   <<>> when the request does not get that far or a digest is missing from the oracle table)

tvars == <<vars, l, r, cur, skip, cpath, creqv, stsv>>

------------------------------------------------------------------------------
Count(reg) == TLCSet(reg, TLCGet(reg) + 1)
Mismatch(what) == PrintT(<<"MISMATCH", l, what>>) /\ Count(1)

\* oracle table: SHA-256 hex of a byte string / the signature for a string-to-sign under the key
\* the provider returns for this case, both evaluated by the harness
ShaEntries(b, x) == {i \in 1..Len(b.oracle.sha) : b.oracle.sha[i].inp = x}
HasSha(b, x) == ShaEntries(b, x) # {}
ShaHex(b, x) == b.oracle.sha[CHOOSE i \in ShaEntries(b, x) : TRUE].out
\* ... under the signing key derived from the PROVIDER's secret for the date, region and service the
\* specification says the provider is asked for
SigEntries(b, rr, ss) == {i \in 1..Len(b.oracle.sig) :
                             LET e == b.oracle.sig[i] IN
                             /\ e.sts = ss /\ e.secret = b.script.secret
                             /\ e.kdate = DateYMD(rr.pdate[1], rr.pdate[2], rr.pdate[3])
                             /\ e.region = b.cfg.region /\ e.service = b.cfg.service}
HasSig(b, rr, ss) == SigEntries(b, rr, ss) # {}
SigHex(b, rr, ss) == b.oracle.sig[CHOOSE i \in SigEntries(b, rr, ss) : TRUE].out

EnvOf(b) == [method |-> b.env.method, path |-> b.env.path, query |-> b.env.query,
             hdrs |-> [i \in 1..Len(b.env.hdrs) |-> <<b.env.hdrs[i][1], b.env.hdrs[i][2]>>], body |-> b.env.body]
CfgOf(b) == [region |-> b.cfg.region, service |-> b.cfg.service, now |-> b.cfg.now, s3 |-> b.cfg.s3,
             fold |-> b.cfg.fold, always |-> b.cfg.always, ifin |-> b.cfg.ifin, prefix |-> b.cfg.prefix]
UseKF(b) == KF = "D7" /\ HasLiteralPlus(b.env.path)
QOf(b) == QG(EnvOf(b), CfgOf(b), UseKF(b))

\* the events of the case that starts at line i are lines i+1 .. i+Rec[i].nev (recorded by the harness)
CaseLines(i) == (i + 1)..Min2(i + Rec[i].nev, Len(Rec))
HasEnd(i) == \E j \in CaseLines(i) : Rec[j].ev = "End"
EndIdx(i) == CHOOSE j \in CaseLines(i) : Rec[j].ev = "End"
\* the canonical path the library exposed for this case, if it did
CanonIdx(i) == {j \in CaseLines(i) : Rec[j].ev = "StageCanon"}

FullyOk(rr) == rr.err.rule = 0 /\ ~rr.dc

\* canonical request and string to sign of a fully valid reading, for the chosen canonical path
CReqOf(b, rr, cp) ==
    b.env.method \o <<LF>> \o cp \o <<LF>> \o rr.cquery \o <<LF>> \o HeaderBlock(EnvOf(b).hdrs, rr.signed)
      \o <<LF>> \o SignedLine(rr.signed) \o <<LF>> \o ShaHex(b, rr.payload)
StsOf(b, rr, cp) == rr.stsPre \o ShaHex(b, CReqOf(b, rr, cp))

CReqVal(b, rr, cp) == IF ~rr.dc /\ rr.err.rule \notin 1..10 /\ HasSha(b, rr.payload) THEN CReqOf(b, rr, cp) ELSE <<>>
StsVal(b, rr, cq) == IF rr.err.rule = 0 /\ ~rr.dc /\ cq # <<>> /\ HasSha(b, cq) THEN rr.stsPre \o ShaHex(b, cq) ELSE <<>>
SigGoodV(b, rr, st) == st # <<>> /\ HasSig(b, rr, st) /\ rr.sig = SigHex(b, rr, st)

\* Dolev-Yao reading of rule 16: the presented signature is good iff it is the harness-evaluated
\* HMAC of exactly the specification's string-to-sign; a digest the harness never evaluated
\* cannot have been presented by a party without the key (collision-freedom)
SigGood(b, rr, cp) ==
    /\ HasSha(b, rr.payload) /\ HasSha(b, CReqOf(b, rr, cp)) /\ HasSig(b, rr, StsOf(b, rr, cp))
    /\ rr.sig = SigHex(b, rr, StsOf(b, rr, cp))

ScriptOf(b) == [readyIn |-> b.script.readyIn, ready |-> b.script.ready, pendIn |-> b.script.pendIn,
                answer |-> b.script.answer, errKind |-> b.script.errKind]

\* the timestamp don't-care: the library may refuse such a date with the rule-9 error
TsRefused(i) == HasEnd(i) /\ Rec[EndIdx(i)].res = "err" /\ Rec[EndIdx(i)].kind = "IncompleteSignature"
                /\ Rec[EndIdx(i)].rulehint = "date"
FormKindOf(i, rr) ==
    IF rr.err.kind = "TooLong"
    THEN (IF HasEnd(i) /\ Rec[EndIdx(i)].kind \in AllKinds \ {"MissingAuthenticationToken", "IncompleteSignature"} /\ Status(Rec[EndIdx(i)].kind) = 400
          THEN Rec[EndIdx(i)].kind ELSE "InvalidBodyEncoding")
    ELSE IF rr.err.rule = 3 THEN rr.err.kind ELSE "InvalidBodyEncoding"

ViewOf(i, b, rr, st) ==
    LET first == IF rr.tsdc /\ TsRefused(i) /\ rr.err.rule \in {0, 11, 12, 13, 14} THEN {10}
                 ELSE IF rr.err.rule # 0 THEN {rr.err.rule} ELSE {}
        sigbad == IF first = {} /\ ~SigGoodV(b, rr, st) THEN {16} ELSE {}
    IN [defects  |-> first \cup sigbad,
        carrier  |-> IF rr.err.rule \in {1, 2, 3} THEN "hdr" ELSE rr.carrier,
        formKind |-> FormKindOf(i, rr)]

------------------------------------------------------------------------------
\* Everything the specification derives from a case's recorded bytes is evaluated ONCE per Begin line, as a
\* constant of the trace (TLC re-evaluates LET definitions at every reference inside actions, but caches
\* them in constant definitions).
BeginLines == {i \in 1..Len(Rec) : Rec[i].ev = "Begin"}
CaseInfo(i) ==
    LET b   == Rec[i]
        rr  == QOf(b)
        obs == CanonIdx(i)
        cp  == IF obs # {} /\ Rec[CHOOSE j \in obs : TRUE].cpath \in rr.cpaths
               THEN Rec[CHOOSE j \in obs : TRUE].cpath
               ELSE CHOOSE p \in rr.cpaths : \A p2 \in rr.cpaths : Len(p) <= Len(p2)
        cq  == CReqVal(b, rr, cp)
        st  == StsVal(b, rr, cq)
    IN [r |-> rr, cp |-> cp, creq |-> cq, sts |-> st, view |-> ViewOf(i, b, rr, st)]
\* evaluated eagerly once (in TraceInit) and kept in a TLC register; Tab is the cheap lookup
Table == [i \in BeginLines |-> CaseInfo(i)]
Tab(i) == TLCGet(20)[i]

------------------------------------------------------------------------------
TraceInit ==
    /\ Init
    /\ l = 1 /\ r = QDefaults @@ [err |-> NoErr, dc |-> TRUE] /\ cur = 0 /\ skip = TRUE /\ cpath = <<>>
    /\ creqv = <<>> /\ stsv = <<>>
    /\ TLCSet(1, 0) /\ TLCSet(2, 0) /\ TLCSet(3, 0) /\ TLCSet(21, FALSE)

\* the table is evaluated by the first step, i.e. on a worker thread (whose stack is sized by -Xss; the initial
\* predicate runs on the JVM's main thread, whose stack is not)
EnsureTable == TLCGet(21) \/ (TLCSet(20, TLCEval(Table)) /\ TLCSet(21, TRUE))

Ev == Rec[l]
BE == Rec[cur]                      \* the Begin event of the case in progress
Adv == l' = l + 1
Keep == UNCHANGED <<r, cur, skip, cpath, creqv, stsv>>
StageNames == {"StageCanon", "StageParams", "StageAuth", "StagePre", "StageSts", "StageLate"}

\* an event no specification action accepts: report it, skip the rest of the case, resume at the
\* next Begin (so the remainder of the trace is still examined)
RejectEv(info) ==
    /\ Mismatch(ToJson(info))
    /\ skip' = TRUE /\ pc' = P("idle")
    /\ UNCHANGED <<q, script, prov, calls, result, nval, total, r, cur, cpath, creqv, stsv>>
Where == [at |-> Ev.ev, pc |-> pc, specResult |-> result, view |-> q, calls |-> calls,
          specRule |-> r.err.rule, specKind |-> r.err.kind]

\* ---- Begin
TrBegin ==
    /\ Ev.ev = "Begin" /\ Adv
    /\ (pc # P("idle") /\ ~skip) => Mismatch("previous case has no End event (abnormal termination)")
    /\ LET b   == Ev
           rr  == Tab(l).r
           cp  == Tab(l).cp
           v   == Tab(l).view
           sd  == StructuralDefects(v)
       IN /\ r' = rr /\ cur' = l /\ cpath' = cp /\ creqv' = Tab(l).creq /\ stsv' = Tab(l).sts
          /\ UNCHANGED <<nval, total>>
          /\ IF rr.dc
             THEN \* the statement leaves this input open: only "no panic" is required
                  /\ skip' = TRUE /\ Count(3)
                  /\ pc' = P("idle") /\ UNCHANGED <<q, script, prov, calls, result>>
             ELSE /\ skip' = FALSE
                  /\ q' = v /\ script' = ScriptOf(b)
                  /\ prov' = [readyIn |-> b.script.readyIn, pendIn |-> b.script.pendIn, readySeen |-> FALSE]
                  /\ calls' = 0
                  /\ IF sd # {}
                     THEN result' = ErrR(KindOf(MinRule(sd), v), MinRule(sd)) /\ pc' = P("done")
                     ELSE result' = None /\ pc' = P("ready")

\* ---- provider events = SigV4's provider actions, with the recorded return value / arguments
TrPollReady ==
    /\ Ev.ev = "PollReady" /\ ~skip /\ Adv
    /\ IF Ev.ret = "pending" /\ ENABLED PollReadyPending THEN PollReadyPending /\ Keep
       ELSE IF Ev.ret = "ready" /\ ENABLED PollReadyReady THEN PollReadyReady /\ Keep
       ELSE IF Ev.ret = "err" /\ ENABLED PollReadyErr THEN PollReadyErr /\ Keep
       ELSE RejectEv(Where)
CallArgsOk ==          \* C03: exactly this access key, token, UTC date, region, service
    /\ Ev.akid = r.akid
    /\ Ev.hasToken = r.hasToken /\ Ev.token = r.token
    /\ Ev.date = r.pdate
    /\ Ev.region = BE.cfg.region /\ Ev.service = BE.cfg.service
TrCall ==
    /\ Ev.ev = "Call" /\ ~skip /\ Adv
    /\ IF ENABLED Call /\ CallArgsOk THEN Call /\ Keep
       ELSE RejectEv(Where @@ [args |-> [akid |-> r.akid, hasToken |-> r.hasToken, token |-> r.token, date |-> r.pdate]])
TrPollFuture ==
    /\ Ev.ev = "PollFuture" /\ ~skip /\ Adv
    /\ IF Ev.ret = "pending" /\ ENABLED PollFuturePending THEN PollFuturePending /\ Keep
       ELSE IF Ev.ret = "ok" /\ ENABLED PollFutureOk THEN PollFutureOk /\ Keep
       ELSE IF Ev.ret = "err" /\ ENABLED PollFutureErr THEN PollFutureErr /\ Keep
       ELSE RejectEv(Where)

\* same header names, and for every name the same values in the same order (C15 does not fix the relative
\* order of differently named headers)
ValuesFor(hs, name) == LET sel == SelectSeq(hs, LAMBDA h : h[1] = name) IN [k \in 1..Len(sel) |-> sel[k][2]]
SameHeaders(a, b) ==
    /\ {a[i][1] : i \in 1..Len(a)} = {b[i][1] : i \in 1..Len(b)}
    /\ \A n \in {a[i][1] : i \in 1..Len(a)} : ValuesFor(a, n) = ValuesFor(b, n)

\* ---- End: (Compare then) Return, and the caller-visible result must be the machine's
RetOk(e) ==
    LET ret == e.ret
        env == BE.env
    IN /\ ret.method = env.method /\ ret.version = env.version
       /\ SameHeaders(ret.hdrs, env.hdrs)
       /\ e.principal = BE.script.principal /\ e.session = BE.script.principal
       /\ IF r.folded
          THEN \* C12/C15: empty body; the returned URI carries exactly the merged parameters
               /\ ret.body = <<>>
               \* (the rebuilt target is in origin form, or keeps the submitted scheme and authority)
               /\ AuthLen(ret.uri) = 0 \/ SubSeq(ret.uri, 1, AuthLen(ret.uri)) = SubSeq(env.uri, 1, AuthLen(env.uri))
               /\ LET pq == Split2(OriginForm(ret.uri), 63)
                      rq == IF Len(pq) = 2 THEN pq[2] ELSE <<>>
                      pr == CanonPathG(pq[1], BE.cfg.s3, UseKF(BE))
                  IN /\ pr.ok /\ cpath \in pr.outs
                     /\ QueryOk(rq)
                     /\ CanonQueryOfPairs(QueryPairs(rq)) = r.cquery
          ELSE ret.body = env.body /\ ret.uri = env.uri
EndMatches(e, res) ==
    CASE res.tag = "ok"  -> e.res = "ok" /\ RetOk(e)
      [] res.tag = "err" -> /\ e.res = "err" /\ e.kind = res.kind
                            /\ e.code = Code(res.kind) /\ e.status = Status(res.kind)
                            \* C14: a provider's SignatureError is passed through unchanged
                            /\ (res.rule = 15 /\ e.kind # "InternalServiceError") => e.msg = "provider says no"
      [] OTHER -> FALSE
FinalResult == IF pc = P("compare")
               THEN (IF 16 \in q.defects THEN ErrR("SignatureDoesNotMatch", 16) ELSE Ok)
               ELSE result
\* the harness gave up polling: allowed exactly when the script says the provider pends forever there
StuckOk == \/ pc = P("ready") /\ script.readyIn = -1
           \/ pc = P("await") /\ script.pendIn = -1
TrEnd ==
    /\ Ev.ev = "End" /\ ~skip /\ Adv
    /\ IF Ev.res = "stuck"
       THEN (IF StuckOk
             THEN /\ pc' = P("idle") /\ nval' = 0 /\ UNCHANGED <<q, script, prov, calls, result, total>> /\ Keep
             ELSE RejectEv(Where))
       ELSE IF pc \in {P("done"), P("compare")} /\ EndMatches(Ev, FinalResult)
       THEN /\ result' = FinalResult /\ pc' = P("idle") /\ nval' = 0
            /\ UNCHANGED <<q, script, prov, calls, total>> /\ Keep
       ELSE RejectEv(Where @@ [expected |-> FinalResult])

\* ---- stage events: exposed state must equal the specification's; the machine does not move
ErrIs(e, kind) == e.res = "err" /\ e.kind = kind /\ e.code = Code(kind) /\ e.status = Status(kind)
\* (any 400 kind that says "the request is malformed"; the two kinds that mean "no / incomplete authentication" are what
\*  a request gets that was NOT refused here, so they do not count as this refusal)
TooLongOk(e) == e.res = "err" /\ e.kind \in AllKinds \ {"MissingAuthenticationToken", "IncompleteSignature"}
                /\ Status(e.kind) = 400 /\ e.status = 400 /\ e.code = Code(e.kind)
StageOk(e) ==
    CASE e.ev = "StageCanon" ->
            IF r.err.rule \in {1, 2, 3}
            THEN (IF r.err.kind = "TooLong" THEN TooLongOk(e) ELSE ErrIs(e, r.err.kind))
            ELSE /\ e.res = "ok" /\ e.cpath \in r.cpaths /\ e.cquery = r.cquery
                 /\ HasSha(BE, r.payload) /\ e.bodyhash = ShaHex(BE, r.payload)
      [] e.ev = "StageParams" ->
            IF r.err.rule \in {5, 6, 7, 8, 9} THEN ErrIs(e, r.err.kind)
            \* (the extracted credential / signature / date strings are internal representation, not compared: what they
            \*  must mean is checked through the provider arguments, the canonical request and the string to sign)
            ELSE r.err.rule \notin {1, 2, 3} /\ e.res = "ok"
      [] e.ev = "StageAuth" ->
            IF r.err.rule = 10 THEN ErrIs(e, "IncompleteSignature")
            ELSE IF r.tsdc /\ e.res = "err" THEN ErrIs(e, "IncompleteSignature")
            ELSE /\ r.err.rule \notin 1..9
                 /\ e.res = "ok" /\ e.inst = r.inst
                 /\ creqv # <<>> /\ e.creq = creqv
      [] e.ev = "StagePre" ->
            IF r.err.rule \in {11, 12, 13, 14} THEN ErrIs(e, r.err.kind) ELSE r.err.rule = 0 /\ e.res = "ok"
      [] e.ev = "StageSts" ->
            /\ r.err.rule = 0 /\ stsv # <<>> /\ e.sts = stsv
      \* the authenticator of a request that was fresh at cfg.now, validated one hour later with the same tolerance:
      \* expired (rule 11), and the key provider is not consulted (C04, C14: freshness is judged on every validation)
      [] e.ev = "StageLate" ->
            /\ r.err.rule = 0 /\ ErrIs(e, "SignatureDoesNotMatch") /\ e.provider_events = 0
TrStage ==
    /\ Ev.ev \in StageNames /\ ~skip /\ Adv
    /\ IF StageOk(Ev) THEN UNCHANGED vars /\ Keep ELSE RejectEv(Where)

\* ---- C17: what the validation emitted.  Every captured log record and every rendering of an error or
\* of an intermediate public value arrives with the set of secrets found in its text (raw, hex, base64).
\* Key material may never appear; the signature the server computed for a REFUSED request may appear
\* only in records below debug level.
KeyTaints == {"secret", "kDate", "kRegion", "kService", "kSigning"}
TaintSet(e) == {e.taints[i] : i \in 1..Len(e.taints)}
Forbidden(e) == KeyTaints \cup (IF e.refused THEN {"expectedSig"} ELSE {})
NoLeak(e) ==
    CASE e.ev = "Log"    -> e.level \in {"DEBUG", "INFO", "WARN", "ERROR"} => TaintSet(e) \cap Forbidden(e) = {}
      [] e.ev = "Render" -> TaintSet(e) \cap Forbidden(e) = {}
TrLeak ==
    /\ Ev.ev \in {"Log", "Render"} /\ ~skip /\ Adv
    /\ IF NoLeak(Ev) THEN UNCHANGED vars /\ Keep ELSE RejectEv(Where @@ [leak |-> TaintSet(Ev)])

\* an input the http crate itself refuses is not an observation of the library
TrInadm ==
    /\ Ev.ev = "Inadm" /\ Adv /\ Count(3)
    /\ skip' = TRUE /\ pc' = P("idle")
    /\ UNCHANGED <<q, script, prov, calls, result, nval, total, r, cur, cpath, creqv, stsv>>

\* ---- skipping: don't-care cases and the remainder of a rejected case; a panic is never allowed
TrSkip ==
    /\ Ev.ev \notin {"Begin", "Inadm"} /\ skip /\ Adv /\ Keep
    /\ (Ev.ev \in (StageNames \cup {"End"}) /\ Ev.res = "panic") => Mismatch("panic")
    /\ (Ev.ev \in {"Log", "Render"} /\ ~NoLeak(Ev)) => Mismatch("leak")
    /\ UNCHANGED vars

TraceNext == l <= Len(Rec) /\ EnsureTable /\ (TrBegin \/ TrPollReady \/ TrCall \/ TrPollFuture \/ TrEnd \/ TrStage \/ TrLeak
                               \/ TrInadm \/ TrSkip)
TraceSpec == TraceInit /\ [][TraceNext]_tvars

\* every invariant of the pipeline specification is evaluated in every state of the trace
TraceInv == ProviderOnce /\ ProviderLast /\ CallOnlyWhenReady /\ Taxonomy /\ OkSound

TraceAccepted ==
    /\ PrintT(<<"STATS", Len(Rec), TLCGet(1), TLCGet(2), TLCGet(3)>>)
    /\ TLCGet("stats").diameter - 1 = Len(Rec)
    /\ TLCGet(1) = 0
=============================================================================
