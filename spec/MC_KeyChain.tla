----------------------------- MODULE MC_KeyChain -----------------------------
EXTENDS KeyChain
mcSecret  == B("wJalrXUtnFEMI/K7MDENG+bPxRfiCYEXAMPLEKEY")
mcDate    == <<2015, 8, 30>>
mcRegion  == B("us-east-1")
mcService == B("service")
=============================================================================
