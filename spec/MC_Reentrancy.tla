---------------------------- MODULE MC_Reentrancy ----------------------------
EXTENDS Reentrancy
mcThreads == {"t1", "t2", "t3"}
mcRequests == {"valid", "baddate", "s3", "nopath"}
mcSeeds == {1, 2, 3}
=============================================================================
