SPECIFICATION Spec
CONSTANT Bug = "none"
CONSTANT MaxDefects = 1
CONSTANT MaxValidations = 2
CONSTANT AllowForever = FALSE
CONSTANT MaxPending = 0
INVARIANT TypeOK
INVARIANT Precedence
INVARIANT Taxonomy
INVARIANT ProviderOnce
INVARIANT ProviderLast
INVARIANT CallsExact
INVARIANT OkNeedsAnswer
INVARIANT OkSound
INVARIANT Complete
INVARIANT HistoryFree
INVARIANT TotalCalls
INVARIANT RulesBigStep
INVARIANT CallOnlyWhenReady
CHECK_DEADLOCK FALSE
