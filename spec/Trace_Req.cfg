SPECIFICATION TraceSpec
CONSTANT Bug = "none"
CONSTANT MaxDefects = 14
CONSTANT MaxValidations = 1
CONSTANT AllowForever = TRUE
CONSTANT MaxPending = 8
INVARIANT TraceInv
POSTCONDITION TraceAccepted
CHECK_DEADLOCK FALSE
