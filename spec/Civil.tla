------------------------------- MODULE Civil -------------------------------
(***************************************************************************)
(* Proleptic Gregorian calendar arithmetic and instants.                   *)
(* An instant is a triple <<day, sec, nano>>: day = number of days since   *)
(* 0000-12-31 (so 0001-01-01 is day 1, as chrono's num_days_from_ce),     *)
(* sec in 0..86399, nano in 0..999999999.  TLC integers are 32-bit, so    *)
(* instants are never flattened into one number.                           *)
(***************************************************************************)
EXTENDS Naturals, Integers, Sequences

IsLeap(y) == (y % 4 = 0 /\ y % 100 # 0) \/ y % 400 = 0

DaysInMonth(y, m) ==
    CASE m \in {1, 3, 5, 7, 8, 10, 12} -> 31
      [] m \in {4, 6, 9, 11} -> 30
      [] m = 2 -> IF IsLeap(y) THEN 29 ELSE 28

CumDays == <<0, 31, 59, 90, 120, 151, 181, 212, 243, 273, 304, 334, 365>>
DaysBeforeMonth(y, m) == CumDays[m] + (IF m > 2 /\ IsLeap(y) THEN 1 ELSE 0)

ValidDate(y, m, d) == y \in 1..9999 /\ m \in 1..12 /\ d \in 1..DaysInMonth(y, m)

\* y >= 1
DaysFromCE(y, m, d) ==
    365 * (y - 1) + ((y - 1) \div 4) - ((y - 1) \div 100) + ((y - 1) \div 400) + DaysBeforeMonth(y, m) + d

YearOfDay(n) ==
    LET y0 == ((n * 400) \div 146097) + 1 IN
    IF DaysFromCE(y0, 1, 1) > n THEN y0 - 1
    ELSE IF DaysFromCE(y0 + 1, 1, 1) <= n THEN y0 + 1
    ELSE y0

\* <<y, m, d>> of day number n >= 1
CivilFromDays(n) ==
    LET y   == YearOfDay(n)
        doy == n - DaysFromCE(y, 1, 1) + 1
        m   == CHOOSE k \in 1..12 : DaysBeforeMonth(y, k) < doy /\ doy <= DaysBeforeMonth(y, k) + DaysInMonth(y, k)
    IN <<y, m, doy - DaysBeforeMonth(y, m)>>

------------------------------------------------------------------------------
Inst(y, m, d, hh, mi, ss, nano) == <<DaysFromCE(y, m, d), hh * 3600 + mi * 60 + ss, nano>>

\* add a whole number of seconds (possibly negative, |s| < 2^30)
AddSec(i, s) ==
    LET t  == i[2] + s
        dd == IF t >= 0 THEN t \div 86400 ELSE -(((-t) + 86399) \div 86400)
    IN <<i[1] + dd, t - dd * 86400, i[3]>>

Before(a, b) ==
    \/ a[1] < b[1]
    \/ a[1] = b[1] /\ a[2] < b[2]
    \/ a[1] = b[1] /\ a[2] = b[2] /\ a[3] < b[3]
AtOrBefore(a, b) == a = b \/ Before(a, b)

\* C04: the freshness window, both bounds inclusive
WindowSec == 900
Fresh(req, now)   == AtOrBefore(AddSec(now, -WindowSec), req) /\ AtOrBefore(req, AddSec(now, WindowSec))
Expired(req, now) == Before(req, AddSec(now, -WindowSec))
TooNew(req, now)  == Before(AddSec(now, WindowSec), req)

\* civil fields of an instant: <<y, m, d, hh, mi, ss>>
Fields(i) == LET c == CivilFromDays(i[1]) IN <<c[1], c[2], c[3], i[2] \div 3600, (i[2] % 3600) \div 60, i[2] % 60>>
=============================================================================
