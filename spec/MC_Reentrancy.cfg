SPECIFICATION FairSpec
CONSTANT Threads <- mcThreads
CONSTANT Requests <- mcRequests
CONSTANT Seeds <- mcSeeds
CONSTANT PerThread = 2
CONSTANT SortBeforeRender = TRUE
INVARIANT NoDeadlock
INVARIANT Deterministic
INVARIANT OnceOnly
PROPERTY Terminates
CHECK_DEADLOCK FALSE
