------------------------------- MODULE Bytes -------------------------------
(***************************************************************************)
(* Byte strings.  Every string the library handles is modelled as a       *)
(* sequence of integers 0..255.  TLC can only take Len, \o and SubSeq of  *)
(* a TLA+ string, so B("GET") converts a literal once through a table of  *)
(* the 95 printable ASCII characters.                                      *)
(***************************************************************************)
EXTENDS Naturals, Integers, Sequences, FiniteSets, FiniteSetsExt, SequencesExt, TLC

Byte == 0..255

AsciiTable == <<
    <<" ", 32>>, <<"!", 33>>, <<"\"", 34>>, <<"#", 35>>, <<"$", 36>>, <<"%", 37>>, <<"&", 38>>, <<"'", 39>>,
    <<"(", 40>>, <<")", 41>>, <<"*", 42>>, <<"+", 43>>, <<",", 44>>, <<"-", 45>>, <<".", 46>>, <<"/", 47>>,
    <<"0", 48>>, <<"1", 49>>, <<"2", 50>>, <<"3", 51>>, <<"4", 52>>, <<"5", 53>>, <<"6", 54>>, <<"7", 55>>,
    <<"8", 56>>, <<"9", 57>>, <<":", 58>>, <<";", 59>>, <<"<", 60>>, <<"=", 61>>, <<">", 62>>, <<"?", 63>>,
    <<"@", 64>>, <<"A", 65>>, <<"B", 66>>, <<"C", 67>>, <<"D", 68>>, <<"E", 69>>, <<"F", 70>>, <<"G", 71>>,
    <<"H", 72>>, <<"I", 73>>, <<"J", 74>>, <<"K", 75>>, <<"L", 76>>, <<"M", 77>>, <<"N", 78>>, <<"O", 79>>,
    <<"P", 80>>, <<"Q", 81>>, <<"R", 82>>, <<"S", 83>>, <<"T", 84>>, <<"U", 85>>, <<"V", 86>>, <<"W", 87>>,
    <<"X", 88>>, <<"Y", 89>>, <<"Z", 90>>, <<"[", 91>>, <<"\\", 92>>, <<"]", 93>>, <<"^", 94>>, <<"_", 95>>,
    <<"`", 96>>, <<"a", 97>>, <<"b", 98>>, <<"c", 99>>, <<"d", 100>>, <<"e", 101>>, <<"f", 102>>, <<"g", 103>>,
    <<"h", 104>>, <<"i", 105>>, <<"j", 106>>, <<"k", 107>>, <<"l", 108>>, <<"m", 109>>, <<"n", 110>>, <<"o", 111>>,
    <<"p", 112>>, <<"q", 113>>, <<"r", 114>>, <<"s", 115>>, <<"t", 116>>, <<"u", 117>>, <<"v", 118>>, <<"w", 119>>,
    <<"x", 120>>, <<"y", 121>>, <<"z", 122>>, <<"{", 123>>, <<"|", 124>>, <<"}", 125>>, <<"~", 126>> >>

CharCode == [c \in {AsciiTable[i][1] : i \in 1..Len(AsciiTable)} |->
                (CHOOSE i \in 1..Len(AsciiTable) : AsciiTable[i][1] = c) + 31]

\* B("abc") = <<97, 98, 99>>
B(str) == [i \in 1..Len(str) |-> CharCode[SubSeq(str, i, i)]]

\* The inverse, for messages only (bytes outside 32..126 become "?").
CodeChar == [n \in 32..126 |-> AsciiTable[n - 31][1]]
RECURSIVE Str(_)
Str(bs) == IF bs = <<>> THEN ""
           ELSE (IF Head(bs) \in 32..126 THEN CodeChar[Head(bs)] ELSE "?") \o Str(Tail(bs))

------------------------------------------------------------------------------
\* Character classes
IsDigit(c)  == c \in 48..57
IsUpper(c)  == c \in 65..90
IsLowerC(c) == c \in 97..122
IsAlnum(c)  == IsDigit(c) \/ IsUpper(c) \/ IsLowerC(c)
\* RFC 3986 unreserved: A-Z a-z 0-9 - . _ ~   (66 bytes)
IsUnreserved(c) == IsAlnum(c) \/ c \in {45, 46, 95, 126}
\* u8::is_ascii_whitespace: SP HT LF FF CR (not VT)
IsAsciiWs(c) == c \in {32, 9, 10, 12, 13}

LowerC(c) == IF IsUpper(c) THEN c + 32 ELSE c
UpperC(c) == IF IsLowerC(c) THEN c - 32 ELSE c
LowerSeq(s) == [i \in 1..Len(s) |-> LowerC(s[i])]
UpperSeq(s) == [i \in 1..Len(s) |-> UpperC(s[i])]

\* hex
HexVal(c) == IF IsDigit(c) THEN c - 48
             ELSE IF c \in 65..70 THEN c - 55
             ELSE IF c \in 97..102 THEN c - 87
             ELSE -1
HexUp(n) == IF n < 10 THEN 48 + n ELSE 55 + n
HexLo(n) == IF n < 10 THEN 48 + n ELSE 87 + n
PctUp(b) == <<37, HexUp(b \div 16), HexUp(b % 16)>>
HexLoSeq(bs) == FlattenSeq([i \in 1..Len(bs) |-> <<HexLo(bs[i] \div 16), HexLo(bs[i] % 16)>>])

------------------------------------------------------------------------------
\* Sequence helpers
Cat(ss) == FlattenSeq(ss)

\* Positions of byte c in s, ascending.
Positions(s, c) == SetToSortSeq({i \in 1..Len(s) : s[i] = c}, <)

\* Rust `split(c)`: always at least one piece; pieces may be empty.
SplitOn(s, c) ==
    LET p  == Positions(s, c)
        np == Len(p)
        lo(k) == IF k = 1 THEN 1 ELSE p[k-1] + 1
        hi(k) == IF k = np + 1 THEN Len(s) ELSE p[k] - 1
    IN [k \in 1..(np + 1) |-> SubSeq(s, lo(k), hi(k))]

\* Rust `splitn(2, c)`: <<whole>> when c does not occur, else <<before, after>>.
Split2(s, c) ==
    LET S == {i \in 1..Len(s) : s[i] = c}
    IN IF S = {} THEN <<s>>
       ELSE LET i == Min(S)
            IN <<SubSeq(s, 1, i - 1), SubSeq(s, i + 1, Len(s))>>

Join(ss, sep) ==
    IF Len(ss) = 0 THEN <<>>
    ELSE Cat([k \in 1..(2 * Len(ss) - 1) |-> IF k % 2 = 1 THEN ss[(k + 1) \div 2] ELSE sep])

StartsWith(s, p) == Len(p) <= Len(s) /\ SubSeq(s, 1, Len(p)) = p

TrimBy(s, IsWs(_)) ==
    LET keep == {i \in 1..Len(s) : ~IsWs(s[i])}
    IN IF keep = {} THEN <<>>
       ELSE SubSeq(s, Min(keep), Max(keep))
TrimAsciiWs(s) == TrimBy(s, IsAsciiWs)

\* Lexicographic order on byte strings (code-point order).
LexLess(a, b) ==
    LET n == IF Len(a) < Len(b) THEN Len(a) ELSE Len(b)
        D == {i \in 1..n : a[i] # b[i]}
    IN IF D = {} THEN Len(a) < Len(b)
       ELSE LET i == Min(D) IN a[i] < b[i]
LexLeq(a, b) == a = b \/ LexLess(a, b)
SortLex(ss) == SortSeq(ss, LexLess)

\* Latin-1 bytes read as characters, then encoded as UTF-8 (Rust `b as char` pushed to a String).
Latin1ToUtf8(s) == Cat([i \in 1..Len(s) |->
                      IF s[i] < 128 THEN <<s[i]>>
                      ELSE <<192 + (s[i] \div 64), 128 + (s[i] % 64)>>])

\* Decimal rendering with zero padding to at least w digits (n >= 0).
RECURSIVE DecDigits(_)
DecDigits(n) == IF n < 10 THEN <<48 + n>> ELSE DecDigits(n \div 10) \o <<48 + (n % 10)>>
Dec(n, w) == LET d == DecDigits(n)
             IN [i \in 1..(IF Len(d) < w THEN w - Len(d) ELSE 0) |-> 48] \o d

SeqToSet(s) == {s[i] : i \in 1..Len(s)}
HasElem(ss, x) == \E i \in 1..Len(ss) : ss[i] = x
Min2(a, b) == IF a < b THEN a ELSE b
Max2(a, b) == IF a > b THEN a ELSE b
=============================================================================
