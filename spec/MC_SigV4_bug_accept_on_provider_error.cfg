SPECIFICATION Spec
CONSTANT Bug = "accept_on_provider_error"
CONSTANT MaxDefects = 2
CONSTANT MaxValidations = 1
CONSTANT AllowForever = FALSE
CONSTANT MaxPending = 1
INVARIANT OkNeedsAnswer
CHECK_DEADLOCK FALSE
