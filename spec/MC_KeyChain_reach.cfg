SPECIFICATION KSpec
INVARIANT NeverSigning
CONSTANT Secret <- mcSecret
CONSTANT Date <- mcDate
CONSTANT Region <- mcRegion
CONSTANT Service <- mcService
CHECK_DEADLOCK FALSE
