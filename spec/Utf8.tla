-------------------------------- MODULE Utf8 --------------------------------
(***************************************************************************)
(* Strict UTF-8 validity (RFC 3629: no overlong forms, no surrogates,      *)
(* nothing above U+10FFFF).                                                *)
(***************************************************************************)
EXTENDS Naturals, Sequences

RECURSIVE Utf8From(_, _)
Utf8From(s, i) ==
    IF i > Len(s) THEN TRUE
    ELSE LET b == s[i]
             c(k, lo, hi) == i + k <= Len(s) /\ s[i + k] >= lo /\ s[i + k] <= hi
         IN IF b < 128 THEN Utf8From(s, i + 1)
            ELSE IF b >= 194 /\ b <= 223 THEN c(1, 128, 191) /\ Utf8From(s, i + 2)
            ELSE IF b = 224 THEN c(1, 160, 191) /\ c(2, 128, 191) /\ Utf8From(s, i + 3)
            ELSE IF (b >= 225 /\ b <= 236) \/ b = 238 \/ b = 239
                 THEN c(1, 128, 191) /\ c(2, 128, 191) /\ Utf8From(s, i + 3)
            ELSE IF b = 237 THEN c(1, 128, 159) /\ c(2, 128, 191) /\ Utf8From(s, i + 3)
            ELSE IF b = 240 THEN c(1, 144, 191) /\ c(2, 128, 191) /\ c(3, 128, 191) /\ Utf8From(s, i + 4)
            ELSE IF b >= 241 /\ b <= 243 THEN c(1, 128, 191) /\ c(2, 128, 191) /\ c(3, 128, 191) /\ Utf8From(s, i + 4)
            ELSE IF b = 244 THEN c(1, 128, 143) /\ c(2, 128, 191) /\ c(3, 128, 191) /\ Utf8From(s, i + 4)
            ELSE FALSE

Utf8Valid(s) == Utf8From(s, 1)
\* ---- UTF-16 (the other Unicode transfer form the charset registry knows): when is a byte string NOT decodable
Utf16Labels == {<<117, 116, 102, 45, 49, 54>>, <<117, 116, 102, 45, 49, 54, 108, 101>>, <<117, 116, 102, 45, 49, 54, 98, 101>>}
ReplacementLabels == { <<99, 115, 105, 115, 111, 50, 48, 50, 50, 107, 114>>,            \* csiso2022kr
                       <<104, 122, 45, 103, 98, 45, 50, 51, 49, 50>>,                    \* hz-gb-2312
                       <<105, 115, 111, 45, 50, 48, 50, 50, 45, 107, 114>>,              \* iso-2022-kr
                       <<105, 115, 111, 45, 50, 48, 50, 50, 45, 99, 110>>,               \* iso-2022-cn
                       <<105, 115, 111, 45, 50, 48, 50, 50, 45, 99, 110, 45, 101, 120, 116>> }   \* iso-2022-cn-ext
Unit16(b, i, be) == IF be THEN b[i] * 256 + b[i + 1] ELSE b[i + 1] * 256 + b[i]
Utf16Undecodable(b, be) ==
    \/ Len(b) % 2 = 1
    \/ \E k \in 1..(Len(b) \div 2) :
          LET u == Unit16(b, 2 * k - 1, be) IN
          \/ (u \in 56320..57343 /\ (k = 1 \/ Unit16(b, 2 * k - 3, be) \notin 55296..56319))                  \* lone low surrogate
          \/ (u \in 55296..56319 /\ (k = Len(b) \div 2 \/ Unit16(b, 2 * k + 1, be) \notin 56320..57343))     \* lone high surrogate
=============================================================================
