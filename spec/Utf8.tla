-------------------------------- MODULE Utf8 --------------------------------
(***************************************************************************)
(* Strict UTF-8 validity (RFC 3629: no overlong forms, no surrogates,      *)
(* nothing above U+10FFFF).                                                *)
(***************************************************************************)
EXTENDS Naturals, Sequences

RECURSIVE Utf8From(_, _)
Utf8From(s, i) ==
    IF i > Len(s) THEN TRUE
    ELSE LET b == s[i]
             c(k, lo, hi) == i + k <= Len(s) /\ s[i + k] >= lo /\ s[i + k] <= hi
         IN IF b < 128 THEN Utf8From(s, i + 1)
            ELSE IF b >= 194 /\ b <= 223 THEN c(1, 128, 191) /\ Utf8From(s, i + 2)
            ELSE IF b = 224 THEN c(1, 160, 191) /\ c(2, 128, 191) /\ Utf8From(s, i + 3)
            ELSE IF (b >= 225 /\ b <= 236) \/ b = 238 \/ b = 239
                 THEN c(1, 128, 191) /\ c(2, 128, 191) /\ Utf8From(s, i + 3)
            ELSE IF b = 237 THEN c(1, 128, 159) /\ c(2, 128, 191) /\ Utf8From(s, i + 3)
            ELSE IF b = 240 THEN c(1, 144, 191) /\ c(2, 128, 191) /\ c(3, 128, 191) /\ Utf8From(s, i + 4)
            ELSE IF b >= 241 /\ b <= 243 THEN c(1, 128, 191) /\ c(2, 128, 191) /\ c(3, 128, 191) /\ Utf8From(s, i + 4)
            ELSE IF b = 244 THEN c(1, 128, 143) /\ c(2, 128, 191) /\ c(3, 128, 191) /\ Utf8From(s, i + 4)
            ELSE FALSE

Utf8Valid(s) == Utf8From(s, 1)
=============================================================================
