------------------------------ MODULE Iso8601 ------------------------------
(***************************************************************************)
(* Reference reading of ISO-8601 calendar date-times (C16).                *)
(*   YYYY[-]MM[-]DD T hh[:]mm[:]ss [(.|,)f+] (Z | (+|-)hh[:]mm)            *)
(* Parse(s) classifies a byte string:                                      *)
(*   "accept"   - well formed; MUST be accepted and denote .inst           *)
(*   "dontcare" - the statement leaves it open (mixed separators, lower    *)
(*                case t/z, offset hours 20-23, year 0000, results outside *)
(*                years 1..9999); if the library accepts it the instant    *)
(*                must still be .inst when one is defined (.hasInst)       *)
(*   "reject"   - MUST be refused                                          *)
(***************************************************************************)
EXTENDS Bytes, Civil

At(s, i) == IF i >= 1 /\ i <= Len(s) THEN s[i] ELSE -1
Dig(s, i) == IsDigit(At(s, i))
Num2(s, i) == (s[i] - 48) * 10 + (s[i+1] - 48)
Num4(s, i) == (s[i] - 48) * 1000 + (s[i+1] - 48) * 100 + (s[i+2] - 48) * 10 + (s[i+3] - 48)

\* length of the maximal digit run starting at i
DigitRun(s, i) ==
    LET N == {k \in 0..(Len(s) - i + 1) : \A j \in i..(i + k - 1) : Dig(s, j)}
    IN Max(N)

\* first nine fraction digits, right-padded with zeros, as nanoseconds
Nanos(s, i, n) ==
    LET d(k) == IF k <= n THEN s[i + k - 1] - 48 ELSE 0
    IN d(1) * 100000000 + d(2) * 10000000 + d(3) * 1000000 + d(4) * 100000 + d(5) * 10000
       + d(6) * 1000 + d(7) * 100 + d(8) * 10 + d(9)

Reject == [class |-> "reject", hasInst |-> FALSE, inst |-> <<0, 0, 0>>]

Parse(s) ==
    LET p1   == 5                                            \* after YYYY
        d1   == At(s, p1) = 45
        p2   == p1 + (IF d1 THEN 1 ELSE 0)                   \* month
        p3   == p2 + 2
        d2   == At(s, p3) = 45
        p4   == p3 + (IF d2 THEN 1 ELSE 0)                   \* day
        p5   == p4 + 2                                       \* 'T'
        p6   == p5 + 1                                       \* hour
        p7   == p6 + 2
        c1   == At(s, p7) = 58
        p8   == p7 + (IF c1 THEN 1 ELSE 0)                   \* minute
        p9   == p8 + 2
        c2   == At(s, p9) = 58
        p10  == p9 + (IF c2 THEN 1 ELSE 0)                   \* second
        p11  == p10 + 2                                      \* fraction or zone
        hasF == At(s, p11) \in {46, 44}
        nF   == IF hasF THEN DigitRun(s, p11 + 1) ELSE 0
        pz   == IF hasF THEN p11 + 1 + nF ELSE p11           \* zone
        zc   == At(s, pz)
        isZ  == zc \in {90, 122}
        isOff == zc \in {43, 45}
        c3   == At(s, pz + 3) = 58
        pom  == pz + 3 + (IF c3 THEN 1 ELSE 0)               \* offset minutes
        endp == IF isZ THEN pz ELSE pom + 1
        syntax ==
            /\ Dig(s, 1) /\ Dig(s, 2) /\ Dig(s, 3) /\ Dig(s, 4)
            /\ Dig(s, p2) /\ Dig(s, p2 + 1) /\ Dig(s, p4) /\ Dig(s, p4 + 1)
            /\ At(s, p5) \in {84, 116}
            /\ Dig(s, p6) /\ Dig(s, p6 + 1) /\ Dig(s, p8) /\ Dig(s, p8 + 1) /\ Dig(s, p10) /\ Dig(s, p10 + 1)
            /\ hasF => nF >= 1
            /\ isZ \/ (isOff /\ Dig(s, pz + 1) /\ Dig(s, pz + 2) /\ Dig(s, pom) /\ Dig(s, pom + 1))
            /\ endp = Len(s)
    IN IF ~syntax THEN Reject
       ELSE
       LET y  == Num4(s, 1)
           mo == Num2(s, p2)
           d  == Num2(s, p4)
           hh == Num2(s, p6)
           mi == Num2(s, p8)
           ss == Num2(s, p10)
           oh == IF isZ THEN 0 ELSE Num2(s, pz + 1)
           om == IF isZ THEN 0 ELSE Num2(s, pom)
           ranges == /\ mo \in 1..12 /\ y >= 0
                     /\ (y >= 1 => d \in 1..DaysInMonth(y, mo))
                     /\ (y = 0 => d \in 1..DaysInMonth(400, mo))
                     /\ hh <= 23 /\ mi <= 59 /\ ss <= 59 /\ oh <= 23 /\ om <= 59
       IN IF ~ranges THEN Reject
          ELSE
          LET strict == /\ d1 = d2 /\ c1 = c2              \* consistently basic or extended
                        /\ At(s, p5) = 84 /\ (isZ => zc = 90)
                        /\ y >= 1 /\ oh <= 19
              off    == (IF zc = 45 THEN -1 ELSE 1) * (oh * 3600 + om * 60)
              local  == IF y >= 1 THEN Inst(y, mo, d, hh, mi, ss, Nanos(s, p11 + 1, nF)) ELSE <<0, 0, 0>>
              utc    == AddSec(local, -off)
              inRange == y >= 1 /\ utc[1] >= 1 /\ utc[1] <= DaysFromCE(9999, 12, 31)
          IN [class   |-> IF strict /\ inRange THEN "accept" ELSE "dontcare",
              hasInst |-> inRange,
              inst    |-> IF inRange THEN utc ELSE <<0, 0, 0>>]

\* YYYYMMDD'T'hhmmss'Z' of an instant (years 1..9999)
Compact(i) == LET f == Fields(i)
              IN Dec(f[1], 4) \o Dec(f[2], 2) \o Dec(f[3], 2) \o <<84>> \o Dec(f[4], 2) \o Dec(f[5], 2) \o Dec(f[6], 2) \o <<90>>
\* YYYYMMDD
ScopeDate(i) == LET f == Fields(i) IN Dec(f[1], 4) \o Dec(f[2], 2) \o Dec(f[3], 2)
DateYMD(y, m, d) == Dec(y, 4) \o Dec(m, 2) \o Dec(d, 2)
=============================================================================
