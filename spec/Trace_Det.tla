------------------------------ MODULE Trace_Det ------------------------------
(***************************************************************************)
(* C18 / C10: determinism across repetitions, threads and processes.       *)
(* Each event is one observation of one case: its id, who observed it      *)
(* (reference run, process, round, thread) and the digest of the caller-   *)
(* visible outcome (result kind/code/status, returned request, principal,  *)
(* provider interactions).  The first observation of a case is the one of  *)
(* the reference run whose full trace Trace_Req accepted; the specification*)
(* says the outcome is a function of the case alone, so every later        *)
(* observation must carry the same digest.  (The driver sorts events by    *)
(* case, so the state only remembers the current case.)                    *)
(***************************************************************************)
EXTENDS Naturals, Sequences, TLC, Json, IOUtils

Rec == ndJsonDeserialize(IOEnv.TRACE)

VARIABLES l, cur, proj

Count(reg) == TLCSet(reg, TLCGet(reg) + 1)

TraceInit == l = 1 /\ cur = <<>> /\ proj = "" /\ TLCSet(1, 0) /\ TLCSet(2, 0) /\ TLCSet(3, 0)

Observe ==
    /\ l <= Len(Rec)
    /\ LET e == Rec[l] IN
       IF e.id # cur
       THEN \* first observation of the next case: must come from the validated reference run
            /\ cur' = e.id /\ proj' = e.proj
            /\ IF e.who = "ref" THEN TRUE ELSE PrintT(<<"MISMATCH", l, "no reference observation">>) /\ Count(1)
       ELSE /\ UNCHANGED <<cur, proj>>
            /\ IF e.proj = proj /\ e.res # "panic" THEN TRUE
               ELSE PrintT(<<"MISMATCH", l, ToJson([reference |-> proj, observed |-> e.proj, who |-> e.who])>>) /\ Count(1)
    /\ l' = l + 1

TraceSpec == TraceInit /\ [][Observe]_<<l, cur, proj>>

TraceAccepted ==
    /\ PrintT(<<"STATS", Len(Rec), TLCGet(1), TLCGet(2), TLCGet(3)>>)
    /\ TLCGet("stats").diameter - 1 = Len(Rec)
    /\ TLCGet(1) = 0
=============================================================================
