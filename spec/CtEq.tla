-------------------------------- MODULE CtEq --------------------------------
(***************************************************************************)
(* C07: the comparison of the presented signature with the expected one.   *)
(* Two comparators over strings of equal length N are modelled as step     *)
(* machines that record the sequence of program points they execute:       *)
(*   "ct"    accumulates the differences of ALL positions (subtle::ct_eq) *)
(*   "early" leaves the loop at the first difference (== / memcmp)         *)
(* Non-interference (2-safety, by self-composition): for one secret        *)
(* expected value b and two wrong guesses g1, g2 of the same length the    *)
(* executed program-point sequences are identical, so the time to reject   *)
(* reveals nothing about how much of a guess is correct.                   *)
(* The observable the implementation check uses (Trace_Det on ptrace       *)
(* instruction traces) is exactly this sequence, at machine level.         *)
(***************************************************************************)
EXTENDS Naturals, Sequences, FiniteSets

CONSTANTS N, Alphabet, Comparator

Strings == [1..N -> Alphabet]

VARIABLES b, g, i, acc, tr, halted     \* g, i, acc, tr, halted are pairs (run 1, run 2)

vars == <<b, g, i, acc, tr, halted>>

Init ==
    /\ b \in Strings
    /\ g \in {p \in Strings \X Strings : p[1] # b /\ p[2] # b}     \* two wrong guesses
    /\ i = <<1, 1>> /\ acc = <<0, 0>> /\ tr = << <<>>, <<>> >> /\ halted = <<FALSE, FALSE>>

\* one loop iteration (or the exit) of run r
StepOf(r, gi, ii, ai, ti) ==
    IF ii > N THEN [i |-> ii, acc |-> ai, tr |-> Append(ti, "ret"), halted |-> TRUE]
    ELSE IF Comparator = "ct"
         THEN [i |-> ii + 1, acc |-> IF gi[ii] # b[ii] THEN 1 ELSE ai, tr |-> ti \o <<"load", "xor", "or">>, halted |-> FALSE]
         ELSE IF gi[ii] # b[ii]
              THEN [i |-> ii, acc |-> 1, tr |-> ti \o <<"load", "cmp", "ret">>, halted |-> TRUE]
              ELSE [i |-> ii + 1, acc |-> ai, tr |-> ti \o <<"load", "cmp">>, halted |-> FALSE]

Step ==
    /\ ~(halted[1] /\ halted[2])
    /\ LET s1 == IF halted[1] THEN [i |-> i[1], acc |-> acc[1], tr |-> tr[1], halted |-> TRUE] ELSE StepOf(1, g[1], i[1], acc[1], tr[1])
           s2 == IF halted[2] THEN [i |-> i[2], acc |-> acc[2], tr |-> tr[2], halted |-> TRUE] ELSE StepOf(2, g[2], i[2], acc[2], tr[2])
       IN /\ i' = <<s1.i, s2.i>> /\ acc' = <<s1.acc, s2.acc>> /\ tr' = <<s1.tr, s2.tr>> /\ halted' = <<s1.halted, s2.halted>>
    /\ UNCHANGED <<b, g>>

Spec == Init /\ [][Step]_vars

\* functional correctness: a wrong guess is rejected
Rejects == (halted[1] /\ halted[2]) => (acc[1] = 1 /\ acc[2] = 1)
\* the 2-safety property
NonInterference == (halted[1] /\ halted[2]) => tr[1] = tr[2]
=============================================================================
