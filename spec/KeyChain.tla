------------------------------ MODULE KeyChain ------------------------------
(***************************************************************************)
(* The public derivation methods of the key types as a state machine over  *)
(* symbolic terms (KeyTerms.tla): state = (kind, term); one action per     *)
(* public method.  PathIndependence: every method path to a key kind       *)
(* yields the same term (C06 "every shortcut equals the step-by-step one").*)
(***************************************************************************)
EXTENDS KeyTerms

\* The key objects as a state machine: state = (kind, term); one action per public method.
CONSTANTS Secret, Date, Region, Service
VARIABLES kind, term, via

KInit == kind = "secret" /\ term = Secret /\ via = <<>>

ToKDate      == kind = "secret"  /\ kind' = "kdate"    /\ term' = KDate(term, Date) /\ via' = Append(via, "to_kdate")
S_ToKRegion  == kind = "secret"  /\ kind' = "kregion"  /\ term' = Hmac(KDate(term, Date), Region) /\ via' = Append(via, "s.to_kregion")
S_ToKService == kind = "secret"  /\ kind' = "kservice" /\ term' = Hmac(Hmac(KDate(term, Date), Region), Service) /\ via' = Append(via, "s.to_kservice")
S_ToKSigning == kind = "secret"  /\ kind' = "ksigning" /\ term' = Hmac(Hmac(Hmac(KDate(term, Date), Region), Service), bAws4Request) /\ via' = Append(via, "s.to_ksigning")
D_ToKRegion  == kind = "kdate"   /\ kind' = "kregion"  /\ term' = Hmac(term, Region) /\ via' = Append(via, "d.to_kregion")
D_ToKService == kind = "kdate"   /\ kind' = "kservice" /\ term' = Hmac(Hmac(term, Region), Service) /\ via' = Append(via, "d.to_kservice")
D_ToKSigning == kind = "kdate"   /\ kind' = "ksigning" /\ term' = Hmac(Hmac(Hmac(term, Region), Service), bAws4Request) /\ via' = Append(via, "d.to_ksigning")
R_ToKService == kind = "kregion" /\ kind' = "kservice" /\ term' = Hmac(term, Service) /\ via' = Append(via, "r.to_kservice")
R_ToKSigning == kind = "kregion" /\ kind' = "ksigning" /\ term' = Hmac(Hmac(term, Service), bAws4Request) /\ via' = Append(via, "r.to_ksigning")
V_ToKSigning == kind = "kservice" /\ kind' = "ksigning" /\ term' = Hmac(term, bAws4Request) /\ via' = Append(via, "v.to_ksigning")

KNext == \/ ToKDate \/ S_ToKRegion \/ S_ToKService \/ S_ToKSigning \/ D_ToKRegion \/ D_ToKService
         \/ D_ToKSigning \/ R_ToKService \/ R_ToKSigning \/ V_ToKSigning
KSpec == KInit /\ [][KNext]_<<kind, term, via>>

PathIndependence ==
    /\ kind = "kdate"    => term = KDate(Secret, Date)
    /\ kind = "kregion"  => term = KRegion(Secret, Date, Region)
    /\ kind = "kservice" => term = KService(Secret, Date, Region, Service)
    /\ kind = "ksigning" => term = KSigning(Secret, Date, Region, Service)
\* reachability witness for the vacuity check: this must be VIOLATED (a signing key is reachable)
NeverSigning == kind # "ksigning"
=============================================================================
