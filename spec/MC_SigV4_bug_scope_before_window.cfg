SPECIFICATION Spec
CONSTANT Bug = "scope_before_window"
CONSTANT MaxDefects = 2
CONSTANT MaxValidations = 1
CONSTANT AllowForever = FALSE
CONSTANT MaxPending = 1
INVARIANT Precedence
CHECK_DEADLOCK FALSE
