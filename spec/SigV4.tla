------------------------------- MODULE SigV4 -------------------------------
(***************************************************************************)
(* The validation pipeline as a state machine (control skeleton).          *)
(*                                                                         *)
(* One validation walks the documented rule order                          *)
(*   1 path, 2 query, 3 form body, 5 carrier, 6 algorithm, 7 parameter    *)
(*   syntax (Authorization header only), 8 missing parameters, 9 signed-  *)
(*   header requirements, 10 date format, 11 expired, 12 not yet valid,   *)
(*   13 credential arity, 14 credential scope,                             *)
(* then talks to the caller-supplied key provider (15: poll_ready until   *)
(* ready, call once, poll the future until it answers) and finally         *)
(* compares signatures (16).  The provider is a separate process whose    *)
(* behaviour is a script chosen by the environment; several validations   *)
(* may share one provider (history).                                       *)
(*                                                                         *)
(* q is the request VIEW: which rules the request violates.  In model      *)
(* checking q ranges over every subset of defects; in trace validation     *)
(* (Trace_Req.tla) it is computed from wire bytes by Request!Q.            *)
(***************************************************************************)
EXTENDS Naturals, Integers, Sequences, FiniteSets, TLC, Errors

CONSTANTS Bug,             \* "none" = the pipeline as designed; any other value switches on ONE deliberately wrong
                           \* behaviour (negative controls: each must make TLC report the invariant it breaks)
          MaxDefects,      \* explore requests with at most this many simultaneous defects
          MaxValidations,  \* validations sharing one provider in a history
          MaxPending,      \* provider may answer Pending this many times (readiness and future)
          AllowForever     \* TRUE: scripts may also pend forever (-1); such validations never complete

Structural == {1, 2, 3, 5, 6, 7, 8, 9, 10, 11, 12, 13, 14}
RuleSeq    == IF Bug = "scope_before_window" THEN <<1, 2, 3, 5, 6, 7, 8, 9, 10, 13, 14, 11, 12>>
              ELSE <<1, 2, 3, 5, 6, 7, 8, 9, 10, 11, 12, 13, 14>>
AllDefects == Structural \cup {16}

Carriers == {"hdr", "qry", "both", "none"}

\* error kinds a provider may return as a SignatureError (passed through unchanged)
ProviderSigKinds == {"InvalidClientTokenId", "ExpiredToken", "SignatureDoesNotMatch", "InternalServiceError"}

\* which error kind a failing rule produces
KindOf(rule, q) ==
    CASE rule = 1  -> "InvalidURIPath"
      [] rule = 2  -> "MalformedQueryString"
      [] rule = 3  -> q.formKind
      [] rule = 5  -> IF q.carrier = "both" THEN "SignatureDoesNotMatch" ELSE "MissingAuthenticationToken"
      [] rule = 6  -> IF q.carrier = "qry" THEN "MissingAuthenticationToken" ELSE "IncompleteSignature"
      [] rule \in {7, 8, 10, 13} -> "IncompleteSignature"
      [] rule \in {9, 11, 12, 14, 16} -> "SignatureDoesNotMatch"

\* well-formed request views
ViewOk(q) ==
    /\ q.defects \subseteq AllDefects
    /\ (5 \in q.defects) <=> (q.carrier \in {"both", "none"})
    /\ (7 \in q.defects) => q.carrier # "qry"           \* no key=value syntax rule on the query carrier
    /\ ~(11 \in q.defects /\ 12 \in q.defects)          \* one instant is not both too old and too new
    /\ q.formKind \in {k \in AllKinds : Status(k) = 400} \ {"MissingAuthenticationToken", "IncompleteSignature"}

Views == {q \in [defects : SUBSET AllDefects, carrier : Carriers,
                 formKind : {"InvalidBodyEncoding", "MalformedQueryString"}] :
            ViewOk(q) /\ Cardinality(q.defects) <= MaxDefects
            /\ (3 \notin q.defects => q.formKind = "InvalidBodyEncoding")}

\* provider scripts: Pending count before readiness, readiness outcome, Pending count of the
\* future, its answer
PendCounts == (0..MaxPending) \cup (IF AllowForever THEN {-1} ELSE {})
Scripts == [readyIn : PendCounts, ready : {"ok", "sigerr", "foreign"},
            pendIn : PendCounts, answer : {"ok", "sigerr", "foreign"},
            errKind : ProviderSigKinds]
\* (trace validation also sees foreign error TYPES in errKind - "io_timedout", ... - which the pipeline must
\*  treat exactly like any other foreign error)

P(label) == <<label, 0>>
None == [tag |-> "none"]
Ok   == [tag |-> "ok"]
ErrR(kind, rule) == [tag |-> "err", kind |-> kind, rule |-> rule]

VARIABLES
    pc,        \* <<label, i>>: P("idle"), <<"rule", i>> (index into RuleSeq), P("ready"), P("call"), P("await"), P("compare"), P("done")
    q,         \* the request view of the validation in progress
    script,    \* the provider's script for this validation
    prov,      \* provider state: remaining Pending answers, whether it has signalled readiness
    calls,     \* provider calls in this validation
    result,    \* None while running
    nval,      \* validations completed so far on this provider
    total      \* provider calls over the whole history

vars == <<pc, q, script, prov, calls, result, nval, total>>

\* ---------------------------------------------------------------- declarative outcome
\* minimum of a non-empty set of rule numbers = earliest rule in the documented order
MinRule(S) == CHOOSE r \in S : \A r2 \in S : r <= r2
Failing(qq) == {r \in qq.defects \cap Structural : ~(r = 7 /\ qq.carrier = "qry")}

ProviderErr(sc) == IF sc.errKind = "InternalServiceError" THEN ErrR("InternalServiceError", 15)
                   ELSE ErrR(sc.errKind, 15)
Pure(qq, sc) ==
    IF Failing(qq) # {} THEN ErrR(KindOf(MinRule(Failing(qq)), qq), MinRule(Failing(qq)))
    ELSE IF sc.ready = "sigerr" THEN ProviderErr(sc)
    ELSE IF sc.ready = "foreign" THEN ErrR("InternalServiceError", 15)
    ELSE IF sc.answer = "sigerr" THEN ProviderErr(sc)
    ELSE IF sc.answer = "foreign" THEN ErrR("InternalServiceError", 15)
    ELSE IF 16 \in qq.defects THEN ErrR("SignatureDoesNotMatch", 16)
    ELSE Ok
PureCalls(qq, sc) == IF Failing(qq) = {} /\ sc.ready = "ok" /\ sc.readyIn # -1 THEN 1 ELSE 0

\* ---------------------------------------------------------------- actions
Init ==
    /\ pc = P("idle") /\ q = [defects |-> {}, carrier |-> "hdr", formKind |-> "InvalidBodyEncoding"]
    /\ script = CHOOSE s \in Scripts : TRUE
    /\ prov = [readyIn |-> 0, pendIn |-> 0, readySeen |-> FALSE]
    /\ calls = 0 /\ result = None /\ nval = 0 /\ total = 0

\* a new validation arrives (same provider instance)
BeginWith(qq, sc) ==
    /\ pc = P("idle") /\ nval < MaxValidations
    /\ q' = qq /\ script' = sc
    /\ prov' = [readyIn |-> sc.readyIn, pendIn |-> sc.pendIn, readySeen |-> FALSE]
    /\ calls' = 0 /\ result' = None
    /\ pc' = <<"rule", 1>>
    /\ UNCHANGED <<nval, total>>
Begin == pc = P("idle") /\ nval < MaxValidations /\ \E qq \in Views : \E sc \in Scripts : BeginWith(qq, sc)

\* Big step: Begin followed by every (unobservable) rule step.  Used by trace validation, where
\* the rule steps leave no event; RulesBigStep (below) shows it equals iterating RuleStep.
StructuralDefects(qq) == {r \in Failing(qq) : ~(r = 7 /\ qq.carrier = "qry")}
BeginRun(qq, sc) ==
    /\ pc = P("idle") /\ nval < MaxValidations
    /\ q' = qq /\ script' = sc
    /\ prov' = [readyIn |-> sc.readyIn, pendIn |-> sc.pendIn, readySeen |-> FALSE]
    /\ calls' = 0
    /\ IF StructuralDefects(qq) # {}
       THEN /\ result' = ErrR(KindOf(MinRule(StructuralDefects(qq)), qq), MinRule(StructuralDefects(qq)))
            /\ pc' = P("done")
       ELSE /\ result' = None /\ pc' = P("ready")
    /\ UNCHANGED <<nval, total>>

Finish(r) == result' = r /\ pc' = P("done")

\* one rule of the documented order; rule 7 does not exist on the query carrier
RuleStep ==
    /\ pc[1] = "rule"
    /\ LET i == pc[2]
           r == RuleSeq[i]
       IN IF r \in q.defects /\ ~(r = 7 /\ q.carrier = "qry")
          THEN Finish(ErrR(KindOf(r, q), r))
          ELSE /\ pc' = IF i = Len(RuleSeq) THEN P("ready") ELSE <<"rule", i + 1>>
               /\ UNCHANGED result
    /\ UNCHANGED <<q, script, prov, calls, nval, total>>

\* provider sub-protocol (tower::ServiceExt::oneshot): three separate, independently enabled steps
PollReadyPending ==
    /\ pc = P("ready") /\ prov.readyIn # 0
    /\ prov' = [prov EXCEPT !.readyIn = IF @ > 0 THEN @ - 1 ELSE @]
    /\ UNCHANGED <<pc, q, script, calls, result, nval, total>>
PollReadyReady ==
    /\ pc = P("ready") /\ prov.readyIn = 0 /\ script.ready = "ok"
    /\ prov' = [prov EXCEPT !.readySeen = TRUE]
    /\ pc' = P("call")
    /\ UNCHANGED <<q, script, calls, result, nval, total>>
PollReadyErr ==
    /\ pc = P("ready") /\ prov.readyIn = 0 /\ script.ready # "ok"
    /\ Finish(IF script.ready = "sigerr" THEN ProviderErr(script) ELSE ErrR("InternalServiceError", 15))
    /\ UNCHANGED <<q, script, prov, calls, nval, total>>
Call ==
    /\ pc = P("call")
    /\ calls' = calls + 1 /\ total' = total + 1
    /\ pc' = P("await")
    /\ UNCHANGED <<q, script, prov, result, nval>>
PollFuturePending ==
    /\ pc = P("await") /\ prov.pendIn # 0
    /\ prov' = [prov EXCEPT !.pendIn = IF @ > 0 THEN @ - 1 ELSE @]
    /\ UNCHANGED <<pc, q, script, calls, result, nval, total>>
PollFutureOk ==
    /\ pc = P("await") /\ prov.pendIn = 0 /\ script.answer = "ok"
    /\ pc' = P("compare")
    /\ UNCHANGED <<q, script, prov, calls, result, nval, total>>
PollFutureErr ==
    /\ pc = P("await") /\ prov.pendIn = 0 /\ script.answer # "ok"
    /\ CASE Bug = "accept_on_provider_error" -> Finish(Ok) /\ UNCHANGED <<q, script, prov, calls, nval, total>>
         [] Bug = "retry_on_error" /\ calls < 2 -> pc' = P("call") /\ UNCHANGED <<q, script, prov, calls, result, nval, total>>
         [] OTHER -> /\ Finish(IF script.answer = "sigerr" THEN ProviderErr(script) ELSE ErrR("InternalServiceError", 15))
                     /\ UNCHANGED <<q, script, prov, calls, nval, total>>
\* negative controls only
CallEarly ==
    /\ Bug = "call_before_rules" /\ pc = <<"rule", 1>> /\ calls = 0
    /\ calls' = 1 /\ total' = total + 1
    /\ UNCHANGED <<pc, q, script, prov, result, nval>>
SkipReady ==
    /\ Bug = "skip_ready" /\ pc = P("ready")
    /\ pc' = P("call")
    /\ UNCHANGED <<q, script, prov, calls, result, nval, total>>
Compare ==
    /\ pc = P("compare")
    /\ Finish(IF 16 \in q.defects THEN ErrR("SignatureDoesNotMatch", 16) ELSE Ok)
    /\ UNCHANGED <<q, script, prov, calls, nval, total>>
\* the result is handed to the caller; the provider instance lives on
Return ==
    /\ pc = P("done")
    /\ pc' = P("idle") /\ nval' = nval + 1
    /\ UNCHANGED <<q, script, prov, calls, result, total>>

ProviderStep == PollReadyPending \/ PollReadyReady \/ PollReadyErr \/ Call
                \/ PollFuturePending \/ PollFutureOk \/ PollFutureErr \/ CallEarly \/ SkipReady
Next == Begin \/ RuleStep \/ ProviderStep \/ Compare \/ Return
Spec == Init /\ [][Next]_vars
FairSpec == Spec /\ WF_vars(RuleStep \/ ProviderStep \/ Compare)

\* ---------------------------------------------------------------- properties
TypeOK ==
    /\ ViewOk(q) /\ script \in Scripts /\ calls \in 0..2 /\ nval \in 0..MaxValidations
    /\ result.tag \in {"none", "ok", "err"}

\* C13: the reported error is that of the earliest failing rule (declarative Pure), with the
\* fixed taxonomy
Precedence == pc = P("done") => result = Pure(q, script)
Taxonomy ==
    result.tag = "err" =>
        /\ result.kind \in AllKinds
        /\ Status(result.kind) \in {400, 403, 500}
        /\ (Status(result.kind) = 500 => result.rule = 15)
        /\ (result.rule \in Structural \cup {16} => Status(result.kind) \in {400, 403})

\* the big step used in trace validation agrees with the small steps
RulesBigStep ==
    /\ pc = P("ready") => StructuralDefects(q) = {} /\ result = None
    /\ (pc = P("done") /\ result.tag = "err" /\ result.rule \in Structural) =>
          result = ErrR(KindOf(MinRule(StructuralDefects(q)), q), MinRule(StructuralDefects(q)))
    /\ (pc[1] = "rule") => \A k \in 1..(pc[2] - 1) : RuleSeq[k] \notin StructuralDefects(q)

\* C14: the provider is consulted at most once, last, only when ready; its failures never authenticate
ProviderOnce == calls <= 1
ProviderLast == calls = 1 => Failing(q) = {}
CallsExact   == pc = P("done") => calls = PureCalls(q, script)
OkNeedsAnswer ==
    result.tag = "ok" => /\ calls = 1 /\ script.ready = "ok" /\ script.answer = "ok"
                         /\ prov.pendIn = 0 /\ prov.readyIn = 0
\* (state form of "call only after readiness was signalled": readySeen is set by PollReadyReady only)
CallOnlyWhenReady == calls = 1 => prov.readySeen
CallOnlyWhenReadyAct == [][calls' > calls => prov.readySeen]_vars
\* C01 (control part): acceptance implies no defect at all, in particular a matching signature
OkSound == result.tag = "ok" => q.defects = {}
\* C02 (control part): a request without defects is accepted when the provider answers
Complete == (pc = P("done") /\ q.defects = {} /\ script.ready = "ok" /\ script.answer = "ok") => result.tag = "ok"
\* C14: a provider that never becomes ready, or never answers, never yields a verdict - in particular no acceptance
PendingNeverAccepts ==
    /\ (script.readyIn = -1 /\ Failing(q) = {}) => (result.tag = "none" /\ calls = 0)
    /\ (script.pendIn = -1 /\ script.readyIn # -1 /\ script.ready = "ok" /\ Failing(q) = {}) => result.tag = "none"
\* C18 / C14: history independence - the outcome is a function of this validation's inputs only
HistoryFree == pc = P("done") => (result = Pure(q, script) /\ total >= calls)
TotalCalls == total <= nval + 1

\* liveness (FairSpec): every validation that starts finishes (scripts have finitely many Pendings)
Terminates == [](pc # P("idle") => <>(pc = P("done")))

\* vacuity controls (each must be VIOLATED): acceptance, provider error pass-through and every
\* structural rule are reachable
NeverOk == result.tag # "ok"
NeverProviderErr == ~(result.tag = "err" /\ result.rule = 15)
NeverScopeErr == ~(result.tag = "err" /\ result.rule = 14)
=============================================================================
