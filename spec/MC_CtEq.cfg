SPECIFICATION Spec
CONSTANT N = 3
CONSTANT Alphabet = {0, 1, 2}
CONSTANT Comparator = "ct"
INVARIANT Rejects
INVARIANT NonInterference
CHECK_DEADLOCK FALSE
