SPECIFICATION Spec
CONSTANT Bug = "none"
CONSTANT MaxDefects = 1
CONSTANT MaxValidations = 3
CONSTANT AllowForever = FALSE
CONSTANT MaxPending = 1
INVARIANT TypeOK
INVARIANT Precedence
INVARIANT Taxonomy
INVARIANT ProviderOnce
INVARIANT ProviderLast
INVARIANT CallsExact
INVARIANT OkNeedsAnswer
INVARIANT OkSound
INVARIANT Complete
INVARIANT HistoryFree
INVARIANT TotalCalls
INVARIANT RulesBigStep
INVARIANT CallOnlyWhenReady
CHECK_DEADLOCK FALSE
