----------------------------- MODULE Reentrancy -----------------------------
(***************************************************************************)
(* C18: the only state shared between validations is a handful of lazily   *)
(* initialised globals (three regexes in canonical.rs, one regex and one   *)
(* error value in chronoutil.rs), each guarded by a one-time               *)
(* initialisation: the first thread to touch an uninitialised global runs  *)
(* the initialiser, every other thread that touches it meanwhile blocks,   *)
(* afterwards everybody reads the same immutable value.  Per-process hash  *)
(* seeds choose the iteration order of the library's hash maps.            *)
(*                                                                         *)
(* Threads validate requests concurrently; a request needs a fixed         *)
(* sequence of globals.  Properties: no deadlock, every validation         *)
(* terminates, and its outcome is Pure(request) whatever the interleaving  *)
(* and whatever the seed.                                                   *)
(***************************************************************************)
EXTENDS Naturals, Sequences, FiniteSets, TLC

CONSTANTS Threads, Requests, Seeds, PerThread,
          SortBeforeRender   \* TRUE: the library as built; FALSE: negative control (render in map iteration order)

Globals == {"MULTISLASH", "AWS4_RE", "ISO8601", "INVALID"}

\* which globals a request touches, in order (a standard-mode path, an Authorization header, a date that
\* parses / one that does not)
Needs(r) == CASE r = "valid"   -> <<"MULTISLASH", "ISO8601">>
              [] r = "baddate" -> <<"MULTISLASH", "ISO8601", "INVALID">>
              [] r = "s3"      -> <<"ISO8601">>
              [] r = "nopath"  -> <<>>

\* the outcome is a function of the request alone
Pure(r) == CASE r = "valid" -> "ok" [] r = "baddate" -> "IncompleteSignature" [] r = "s3" -> "ok" [] r = "nopath" -> "InvalidURIPath"

\* map iteration order under a seed: a permutation of the parameter names; the library sorts before rendering
Params == {"a", "b", "c"}
IterOrder(seed) == CASE seed = 1 -> <<"a", "b", "c">> [] seed = 2 -> <<"c", "a", "b">> [] seed = 3 -> <<"b", "c", "a">>
SortedRender(order) == <<"a", "b", "c">>       \* sort_unstable() after collecting, whatever the order was
UnsortedRender(order) == order                 \* (negative control) rendering in iteration order

VARIABLES once,     \* global -> "uninit" | "running" | "done"
          runner,   \* global -> thread running its initialiser (or "none")
          tstate,   \* thread -> [req, k (next needed global), phase, left (validations still to do), out, render]
          seed

vars == <<once, runner, tstate, seed>>

Init ==
    /\ once = [g \in Globals |-> "uninit"]
    /\ runner = [g \in Globals |-> "none"]
    /\ seed \in Seeds
    /\ tstate \in [Threads -> [req : Requests, k : {1}, phase : {"run"}, left : {PerThread}, out : {"none"}, render : {<<>>}]]

\* thread t touches the next global it needs
Touch(t) ==
    LET s == tstate[t]
        need == Needs(s.req)
    IN /\ s.phase = "run" /\ s.k <= Len(need)
       /\ LET g == need[s.k] IN
          CASE once[g] = "done" ->
                  /\ tstate' = [tstate EXCEPT ![t].k = @ + 1]
                  /\ UNCHANGED <<once, runner, seed>>
            [] once[g] = "uninit" ->
                  /\ once' = [once EXCEPT ![g] = "running"] /\ runner' = [runner EXCEPT ![g] = t]
                  /\ tstate' = [tstate EXCEPT ![t].phase = "init"]
                  /\ UNCHANGED seed
            [] once[g] = "running" -> FALSE       \* blocked until the initialiser finishes

\* the initialiser itself touches no other global, so it always completes
FinishInit(t) ==
    /\ tstate[t].phase = "init"
    /\ \E g \in Globals : runner[g] = t /\ once[g] = "running"
         /\ once' = [once EXCEPT ![g] = "done"] /\ runner' = [runner EXCEPT ![g] = "none"]
    /\ tstate' = [tstate EXCEPT ![t].phase = "run"]
    /\ UNCHANGED seed

Complete(t) ==
    LET s == tstate[t] IN
    /\ s.phase = "run" /\ s.k > Len(Needs(s.req))
    /\ tstate' = [tstate EXCEPT ![t].out = Pure(s.req), ![t].render = IF SortBeforeRender THEN SortedRender(IterOrder(seed)) ELSE UnsortedRender(IterOrder(seed)), ![t].phase = "done"]
    /\ UNCHANGED <<once, runner, seed>>

\* the same thread validates another request (state left behind by the previous one: only `once`)
Again(t) ==
    /\ tstate[t].phase = "done" /\ tstate[t].left > 1
    /\ \E r \in Requests :
         tstate' = [tstate EXCEPT ![t] = [req |-> r, k |-> 1, phase |-> "run", left |-> tstate[t].left - 1, out |-> "none", render |-> <<>>]]
    /\ UNCHANGED <<once, runner, seed>>

Next == \E t \in Threads : Touch(t) \/ FinishInit(t) \/ Complete(t) \/ Again(t)
Spec == Init /\ [][Next]_vars
FairSpec == Spec /\ \A t \in Threads : WF_vars(Touch(t) \/ FinishInit(t) \/ Complete(t))

AllDone == \A t \in Threads : tstate[t].phase = "done" /\ tstate[t].left = 1

\* no state other than "everybody finished" is stuck
NoDeadlock == AllDone \/ ENABLED Next
Deterministic == \A t \in Threads : tstate[t].phase = "done" =>
                     /\ tstate[t].out = Pure(tstate[t].req)
                     /\ tstate[t].render = <<"a", "b", "c">>          \* independent of the seed
OnceOnly == \A g \in Globals : once[g] = "running" <=> runner[g] # "none"
Terminates == <>[](\A t \in Threads : tstate[t].phase = "done")
=============================================================================
