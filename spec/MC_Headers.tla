------------------------------ MODULE MC_Headers ------------------------------
(* Laws of the header-value normal form (C11), checked on the specification itself. *)
EXTENDS Gen_Fn, Headers

HvalLaws ==
    (IsCase /\ Case.op = "hval") =>
        LET v == Case.v
            n == NormValue(v)
        IN /\ NormValue(n) = n                                               \* idempotent
           /\ n = <<>> \/ (n[1] # SP /\ n[Len(n)] # SP)                      \* trimmed
           /\ \A i \in 1..(Len(n) - 1) : ~(n[i] = SP /\ n[i+1] = SP)         \* runs collapsed
           /\ SelectSeq(n, LAMBDA c : c # SP) = SelectSeq(v, LAMBDA c : c # SP)   \* every other byte kept, in order
=============================================================================
