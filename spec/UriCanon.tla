------------------------------ MODULE UriCanon ------------------------------
(***************************************************************************)
(* Reference (declarative) definitions of SigV4 URI canonicalisation:     *)
(*   - percent-decoding / once-encoding of one element,                    *)
(*   - the canonical path in standard and S3 mode,                         *)
(*   - the canonical query string.                                         *)
(* They are written from the SigV4 rules, not from the code's structure:  *)
(* the code collapses slashes with a regex and edits a vector in place,   *)
(* the reference decodes segments and runs a stack.                        *)
(***************************************************************************)
EXTENDS Bytes

PCT   == 37
PLUS  == 43
SLASH == 47
AMP   == 38
EQ    == 61
DOT   == 46

------------------------------------------------------------------------------
\* One element (a path segment, a query name or a query value)

\* every '%' is followed by two hex digits
EscapesOk(el) ==
    \A i \in 1..Len(el) :
        el[i] = PCT => /\ i + 2 <= Len(el)
                       /\ HexVal(el[i+1]) >= 0
                       /\ HexVal(el[i+2]) >= 0

\* Decoded bytes of a well-escaped element.  plusIsSpace: '+' denotes SP (queries).
DecodeElem(el, plusIsSpace) ==
    LET covered(i) == (i > 1 /\ el[i-1] = PCT) \/ (i > 2 /\ el[i-2] = PCT)
    IN Cat([i \in 1..Len(el) |->
              IF covered(i) THEN <<>>
              ELSE IF el[i] = PCT THEN <<16 * HexVal(el[i+1]) + HexVal(el[i+2])>>
              ELSE IF el[i] = PLUS /\ plusIsSpace THEN <<32>>
              ELSE <<el[i]>>])

\* Once-encoding: unreserved bytes literal, everything else %HH upper-case.
EncodeElem(bs) == Cat([i \in 1..Len(bs) |-> IF IsUnreserved(bs[i]) THEN <<bs[i]>> ELSE PctUp(bs[i])])

NormElem(el, plusIsSpace) == EncodeElem(DecodeElem(el, plusIsSpace))

------------------------------------------------------------------------------
\* Canonical path.  Result: [ok |-> TRUE, outs |-> set of allowed canonical paths]
\*                       or [ok |-> FALSE, why |-> "relative" | "escape" | "aboveroot"]

bDot    == <<DOT>>
bDotDot == <<DOT, DOT>>

RawSegs(path) == SplitOn(SubSeq(path, 2, Len(path)), SLASH)

\* the stack machine of standard mode; st.ok = FALSE once '..' was applied to an empty stack
RECURSIVE Resolve(_, _, _)
Resolve(segs, k, st) ==
    IF k > Len(segs) \/ ~st.ok THEN st
    ELSE LET s == segs[k] IN
         Resolve(segs, k + 1,
            IF s = <<>> \/ s = bDot THEN st
            ELSE IF s = bDotDot
                 THEN (IF st.stack = <<>> THEN [st EXCEPT !.ok = FALSE]
                       ELSE [st EXCEPT !.stack = SubSeq(st.stack, 1, Len(st.stack) - 1)])
            ELSE [st EXCEPT !.stack = Append(st.stack, s)])

\* plusIsSpaceInPath = FALSE is the reference; TRUE is the library's known deviation (finding D7)
CanonPathG(path, s3, plusIsSpaceInPath) ==
    IF path = <<>> THEN [ok |-> TRUE, outs |-> {<<SLASH>>}]
    ELSE IF path[1] # SLASH THEN [ok |-> FALSE, why |-> "relative"]
    ELSE LET raw == RawSegs(path) IN
         IF \E k \in 1..Len(raw) : ~EscapesOk(raw[k]) THEN [ok |-> FALSE, why |-> "escape"]
         ELSE LET dec == [k \in 1..Len(raw) |-> DecodeElem(raw[k], plusIsSpaceInPath)] IN
              IF s3 THEN [ok |-> TRUE,
                          outs |-> {<<SLASH>> \o Join([k \in 1..Len(dec) |-> EncodeElem(dec[k])], <<SLASH>>)}]
              ELSE LET st == Resolve(dec, 1, [ok |-> TRUE, stack |-> <<>>]) IN
                   IF ~st.ok THEN [ok |-> FALSE, why |-> "aboveroot"]
                   ELSE LET body == <<SLASH>> \o Join([k \in 1..Len(st.stack) |-> EncodeElem(st.stack[k])], <<SLASH>>)
                            last == dec[Len(dec)]
                        IN IF st.stack = <<>> THEN [ok |-> TRUE, outs |-> {<<SLASH>>}]
                           ELSE IF last = <<>> THEN [ok |-> TRUE, outs |-> {body \o <<SLASH>>}]
                           \* a trailing '.' or '..' segment: RFC 3986 leaves a trailing slash, the SigV4
                           \* rules do not say; both are admitted (don't-care, DESIGN section 8)
                           ELSE IF last = bDot \/ last = bDotDot THEN [ok |-> TRUE, outs |-> {body, body \o <<SLASH>>}]
                           ELSE [ok |-> TRUE, outs |-> {body}]

CanonPath(path, s3) == CanonPathG(path, s3, FALSE)

\* Known finding D7: the library treats a literal '+' in a path as an encoded space.
KF_PlusInPath(path, s3) == CanonPathG(path, s3, TRUE)
HasLiteralPlus(path) == \E i \in 1..Len(path) : path[i] = PLUS

------------------------------------------------------------------------------
\* Query strings

bXAmzSignature == B("X-Amz-Signature")

QueryComponents(qs) == SelectSeq(SplitOn(qs, AMP), LAMBDA c : c # <<>>)

QueryOk(qs) ==
    qs = <<>> \/ \A k \in 1..Len(QueryComponents(qs)) : EscapesOk(QueryComponents(qs)[k])

\* decoded (name, value) pairs in wire order
QueryPairs(qs) ==
    IF qs = <<>> THEN <<>>
    ELSE LET cs == QueryComponents(qs) IN
         [k \in 1..Len(cs) |->
            LET nv == Split2(cs[k], EQ) IN
            <<DecodeElem(nv[1], TRUE), IF Len(nv) = 2 THEN DecodeElem(nv[2], TRUE) ELSE <<>> >>]

PairLeq(p, q) == LexLess(p[1], q[1]) \/ (p[1] = q[1] /\ LexLeq(p[2], q[2]))
PairLess(p, q) == LexLess(p[1], q[1]) \/ (p[1] = q[1] /\ LexLess(p[2], q[2]))

\* canonical query string of a sequence of decoded pairs
CanonQueryOfPairs(pairs) ==
    LET kept == SelectSeq(pairs, LAMBDA p : p[1] # bXAmzSignature)
        enc  == [k \in 1..Len(kept) |-> <<EncodeElem(kept[k][1]), EncodeElem(kept[k][2])>>]
        srt  == SortSeq(enc, PairLess)
    IN Join([k \in 1..Len(srt) |-> srt[k][1] \o <<EQ>> \o srt[k][2]], <<AMP>>)

\* [ok |-> TRUE, out |-> bytes] or [ok |-> FALSE, why |-> "escape"]
CanonQuery(qs) ==
    IF ~QueryOk(qs) THEN [ok |-> FALSE, why |-> "escape"]
    ELSE [ok |-> TRUE, out |-> CanonQueryOfPairs(QueryPairs(qs))]

\* A deliberately wrong variant (negative control for the spec's own laws and for the
\* binding self-check): order by the rendered "name=value" strings.
CanonQueryRenderedSort(qs) ==
    LET kept == SelectSeq(QueryPairs(qs), LAMBDA p : p[1] # bXAmzSignature)
        ren  == [k \in 1..Len(kept) |-> EncodeElem(kept[k][1]) \o <<EQ>> \o EncodeElem(kept[k][2])]
    IN Join(SortSeq(ren, LexLess), <<AMP>>)

\* multiset of pairs as a bag function, for the "no pair dropped or invented" law
PairBag(pairs) == [p \in SeqToSet(pairs) |-> Cardinality({k \in 1..Len(pairs) : pairs[k] = p})]
=============================================================================
