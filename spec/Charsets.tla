------------------------------ MODULE Charsets ------------------------------
(***************************************************************************)
(* Charset labels (WHATWG "get an encoding"), as known to the `encoding`   *)
(* crate 0.2.33 the library delegates to.  GENERATED from its label.rs.    *)
(* A label is trimmed of SP/LF/CR/HT/FF and ASCII-lower-cased before the   *)
(* lookup.  UTF-8 labels select strict UTF-8 decoding; any other known     *)
(* label is a don't-care for C12 (the statement covers "UTF-8 or           *)
(* unspecified"); an unknown label must be refused.                        *)
(***************************************************************************)
EXTENDS Bytes

Utf8Labels == { B("unicode-1-1-utf-8"), B("utf-8"), B("utf8") }

OtherKnownLabels == {
    B("866"), B("cp866"), B("csibm866"), B("ibm866"), B("csisolatin2"), B("iso-8859-2"),
    B("iso-ir-101"), B("iso8859-2"), B("iso88592"), B("iso_8859-2"), B("iso_8859-2:1987"), B("l2"),
    B("latin2"), B("csisolatin3"), B("iso-8859-3"), B("iso-ir-109"), B("iso8859-3"), B("iso88593"),
    B("iso_8859-3"), B("iso_8859-3:1988"), B("l3"), B("latin3"), B("csisolatin4"), B("iso-8859-4"),
    B("iso-ir-110"), B("iso8859-4"), B("iso88594"), B("iso_8859-4"), B("iso_8859-4:1988"), B("l4"),
    B("latin4"), B("csisolatincyrillic"), B("cyrillic"), B("iso-8859-5"), B("iso-ir-144"), B("iso8859-5"),
    B("iso88595"), B("iso_8859-5"), B("iso_8859-5:1988"), B("arabic"), B("asmo-708"), B("csiso88596e"),
    B("csiso88596i"), B("csisolatinarabic"), B("ecma-114"), B("iso-8859-6"), B("iso-8859-6-e"), B("iso-8859-6-i"),
    B("iso-ir-127"), B("iso8859-6"), B("iso88596"), B("iso_8859-6"), B("iso_8859-6:1987"), B("csisolatingreek"),
    B("ecma-118"), B("elot_928"), B("greek"), B("greek8"), B("iso-8859-7"), B("iso-ir-126"),
    B("iso8859-7"), B("iso88597"), B("iso_8859-7"), B("iso_8859-7:1987"), B("sun_eu_greek"), B("csiso88598e"),
    B("csisolatinhebrew"), B("hebrew"), B("iso-8859-8"), B("iso-8859-8-e"), B("iso-ir-138"), B("iso8859-8"),
    B("iso88598"), B("iso_8859-8"), B("iso_8859-8:1988"), B("visual"), B("csiso88598i"), B("iso-8859-8-i"),
    B("logical"), B("csisolatin6"), B("iso-8859-10"), B("iso-ir-157"), B("iso8859-10"), B("iso885910"),
    B("l6"), B("latin6"), B("iso-8859-13"), B("iso8859-13"), B("iso885913"), B("iso-8859-14"),
    B("iso8859-14"), B("iso885914"), B("csisolatin9"), B("iso-8859-15"), B("iso8859-15"), B("iso885915"),
    B("iso_8859-15"), B("l9"), B("iso-8859-16"), B("cskoi8r"), B("koi"), B("koi8"),
    B("koi8-r"), B("koi8_r"), B("koi8-u"), B("csmacintosh"), B("mac"), B("macintosh"),
    B("x-mac-roman"), B("dos-874"), B("iso-8859-11"), B("iso8859-11"), B("iso885911"), B("tis-620"),
    B("windows-874"), B("cp1250"), B("windows-1250"), B("x-cp1250"), B("cp1251"), B("windows-1251"),
    B("x-cp1251"), B("ansi_x3.4-1968"), B("ascii"), B("cp1252"), B("cp819"), B("csisolatin1"),
    B("ibm819"), B("iso-8859-1"), B("iso-ir-100"), B("iso8859-1"), B("iso88591"), B("iso_8859-1"),
    B("iso_8859-1:1987"), B("l1"), B("latin1"), B("us-ascii"), B("windows-1252"), B("x-cp1252"),
    B("cp1253"), B("windows-1253"), B("x-cp1253"), B("cp1254"), B("csisolatin5"), B("iso-8859-9"),
    B("iso-ir-148"), B("iso8859-9"), B("iso88599"), B("iso_8859-9"), B("iso_8859-9:1989"), B("l5"),
    B("latin5"), B("windows-1254"), B("x-cp1254"), B("cp1255"), B("windows-1255"), B("x-cp1255"),
    B("cp1256"), B("windows-1256"), B("x-cp1256"), B("cp1257"), B("windows-1257"), B("x-cp1257"),
    B("cp1258"), B("windows-1258"), B("x-cp1258"), B("x-mac-cyrillic"), B("x-mac-ukrainian"), B("chinese"),
    B("csgb2312"), B("csiso58gb231280"), B("gb2312"), B("gb_2312"), B("gb_2312-80"), B("gbk"),
    B("iso-ir-58"), B("x-gbk"), B("gb18030"), B("big5"), B("big5-hkscs"), B("cn-big5"),
    B("csbig5"), B("x-x-big5"), B("cseucpkdfmtjapanese"), B("euc-jp"), B("x-euc-jp"), B("csiso2022jp"),
    B("iso-2022-jp"), B("csshiftjis"), B("ms_kanji"), B("shift-jis"), B("shift_jis"), B("sjis"),
    B("windows-31j"), B("x-sjis"), B("cseuckr"), B("csksc56011987"), B("euc-kr"), B("iso-ir-149"),
    B("korean"), B("ks_c_5601-1987"), B("ks_c_5601-1989"), B("ksc5601"), B("ksc_5601"), B("windows-949"),
    B("csiso2022kr"), B("hz-gb-2312"), B("iso-2022-kr"), B("iso-2022-cn"), B("iso-2022-cn-ext"), B("utf-16be"),
    B("utf-16"), B("utf-16le"), B("x-user-defined") }

IsLabelWs(c) == c \in {32, 10, 13, 9, 12}
NormLabel(l) == LowerSeq(TrimBy(l, IsLabelWs))
=============================================================================
