------------------------------- MODULE Gen_Fn -------------------------------
(***************************************************************************)
(* Campaign E for the function-level properties: TLC enumerates, exactly  *)
(* as the property quantifies, the finite input spaces and prints one     *)
(* case per state.  No expectations are printed: what the library does    *)
(* with each input is recorded by the harness and judged by Trace_Fn.tla. *)
(*                                                                         *)
(* Every family is an index tree: the state is a sequence of indices, the *)
(* k-th index ranging over 1..Dim(k); Next appends one index, so the      *)
(* enumeration is a breadth-first search that TLC runs on all workers     *)
(* (initial-state enumeration alone is single-threaded).                  *)
(***************************************************************************)
EXTENDS Bytes, Json

CONSTANTS Family,   \* which finite space to enumerate
          Bound     \* its size parameter

VARIABLE idx

SL == <<47>>

\* C09 (3): segment alphabet covering dots, escaped dots, escaped slashes, empty segments,
\* bad escapes, the literal '+', sub-delims and needless escapes
PathSigma == << B("a"), B("."), B(".."), B("%2E"), B("%2e%2E"), B(".%2e"), <<>>, B("%2F"),
                B("%zz"), B("%4"), B("+"), B("*"), B("~"), B("%7e"), B("a%41"),
                \* raw characters above U+00FF whose low byte looks like an unreserved ASCII character (U+0141 'A', U+4E2D '-', U+1234 '4')
                <<197, 129>> \o B("ukasz"), <<228, 184, 173>>, B("x") \o <<225, 136, 180>> >>

\* C09 (1): every byte in every spelling
Utf8Lit(b) == IF b < 128 THEN <<b>> ELSE <<192 + (b \div 64), 128 + (b % 64)>>
Spelling(b, k) == CASE k = 1 -> Utf8Lit(b)
                    [] k = 2 -> <<37, HexUp(b \div 16), HexUp(b % 16)>>
                    [] k = 3 -> <<37, HexLo(b \div 16), HexLo(b % 16)>>
                    [] k = 4 -> <<37, HexUp(b \div 16), HexLo(b % 16)>>
                    [] k = 5 -> <<37, HexLo(b \div 16), HexUp(b % 16)>>
PathContext(sp, k) == CASE k = 1 -> SL \o sp
                        [] k = 2 -> SL \o B("x") \o sp \o B("y")
                        [] k = 3 -> SL \o B("d") \o SL \o sp \o SL

\* C10: parameter alphabet with names that are prefixes of one another followed by
\* characters sorting below '=', case variants, respellings, the signature parameter
QNames  == << B("a"), B("a1"), B("a-"), B("a."), B("a%3D"), B("%61"), B("A"), <<>>,
              B("X-Amz-Signature"), B("X%2DAmz-Signature") >>
QValues == << <<>>, B("1"), B("2"), B("%20"), B("+"), B("b=c"), B("%zz") >>
QWide == << <<197, 129>> \o B("=") \o <<228, 184, 173>>, B("k=") \o <<225, 136, 180>> \o B("4"), <<228, 184, 173>> >>
\* component k of 1..80: name=value for 70 combinations, bare name for 10
QComp(k) == IF k <= 70 THEN QNames[((k - 1) \div 7) + 1] \o <<61>> \o QValues[((k - 1) % 7) + 1]
            ELSE QNames[k - 70]
QOf(f, sep) == Join([i \in 1..Len(f) |-> QComp(f[i])], sep)

Bool(k) == k = 2

\* C16: timestamps.  Base instant 2015-08-30T12:36:00Z; F(form) inserts '-' and ':' when extended.
TsMake(y4, mo, d, hh, mi, ss, d1, d2, c1, c2, frac, zone) ==
    y4 \o (IF d1 THEN <<45>> ELSE <<>>) \o mo \o (IF d2 THEN <<45>> ELSE <<>>) \o d \o <<84>>
       \o hh \o (IF c1 THEN <<58>> ELSE <<>>) \o mi \o (IF c2 THEN <<58>> ELSE <<>>) \o ss \o frac \o zone
TsBase(ext, zone) == TsMake(B("2015"), B("08"), B("30"), B("12"), B("36"), B("00"), ext, ext, ext, ext, <<>>, zone)
TsYears == << B("0000"), B("0001"), B("0999"), B("1000"), B("1900"), B("2000"), B("2100"), B("9999") >>
TsCalYears == << B("1900"), B("2000"), B("2015"), B("2016"), B("2100") >>
TsZones == << B("Z"), B("+0530"), B("-02:45"), B("+00:00"), B("-1900"), B("+19:59"), B("+00:30"), B("-0045"), B("-00:01") >>
TsFracDigits(n, pat) == [i \in 1..n |-> CASE pat = 1 -> 48 + (i % 10) [] pat = 2 -> 57 [] pat = 3 -> 48]
TsAffix == <<
    B(" 20150830T123600Z"), B("20150830T123600Z "), <<10>> \o B("20150830T123600Z"), B("20150830T123600Z") \o <<10>>,
    <<0>> \o B("20150830T123600Z"), B("20150830T123600Z") \o <<0>>, B("120150830T123600Z"), B("20150830T123600Z1"),
    B("20150830T123600ZZ"), B("20150830T123600"), B("20150830T123600+"), B("20150830T123600+05"), B("20150830T123600+053"),
    B("20150830t123600Z"), B("20150830T123600z"), B("20150830 123600Z"), B("20150830123600Z"), B("2015083T123600Z"),
    B("20150830T1236Z"), B("20150830T12Z"), B("20150830"), B("20150830T123600.Z"), B("20150830T123600,Z"),
    B("20150830T123600.5"), B("20150830T123600.5.5Z"), B("2015-08-30T12:36:00Z"), B("2015-08-30T12:36:00+00:00"),
    B("Sun, 30 Aug 2015 12:36:00 GMT"), <<>>, B("Z"), B("T"), B("20150830T123600-0000"), B("20150830T123600+2400"),
    B("+20150830T123600Z"), B("-0150830T123600Z"), B("2015-W35-7T12:36:00Z"), B("2015-242T12:36:00Z"),
    B("20150830T123660Z"), B("20150830T123661Z"), B("20150830T240000Z"), B("20160229T000000Z"), B("20150229T000000Z"),
    B("21000229T000000Z"), B("20000229T000000Z"), B("20150830T123600.123456789123Z"), B("2015-08-30T12:36:00,5+01:00"),
    B("99991231T235959Z"), B("99991231T235959-0100"), B("00010101T000000Z"), B("00010101T000000+0100") >>

\* C06: secrets (by length and content) and capacities, dates, regions/services
AWS4c == <<65, 87, 83, 52>>      \* "AWS4": a secret may begin with the very prefix the derivation prepends
KeySecretOfLen(n, kind) == [i \in 1..n |-> CASE kind = 1 -> 97 + (i % 26)
                                               [] kind = 2 -> IF i = n THEN 0 ELSE 65 + (i % 26)
                                               [] kind = 3 -> IF i % 2 = 1 THEN 195 ELSE 169
                                               [] kind = 4 -> IF i <= 4 THEN AWS4c[i] ELSE 48 + (i % 10)]
KeyLens == <<0, 1, 4, 5, 36, 39, 40, 41, 44, 60, 61, 96, 97, 100, 251, 252, 253, 296, 297>>
KeyCaps == <<0, 3, 4, 5, 8, 44, 64, 100, 255, 256, 300>>
KeyDates == << <<1, 1, 1>>, <<999, 12, 31>>, <<1000, 1, 1>>, <<2000, 2, 29>>, <<2015, 8, 30>>, <<2016, 2, 29>>,
               <<2100, 2, 28>>, <<9999, 12, 31>>, <<2015, 1, 1>>, <<2015, 1, 31>>, <<2015, 2, 1>>, <<2015, 2, 28>>,
               <<2015, 3, 1>>, <<2015, 4, 30>>, <<2015, 9, 9>>, <<2015, 10, 10>>, <<2015, 12, 1>>, <<2015, 12, 31>> >>
KeyNames == << <<>>, B("us-east-1"), <<195, 169>>, [i \in 1..300 |-> 97 + (i % 26)], B("aws4_request"), B("s3"), B("us/east/1") >>
KeyChainSecrets == << KeySecretOfLen(40, 1), <<>>, KeySecretOfLen(1, 1), KeySecretOfLen(39, 2), KeySecretOfLen(40, 2),
                      KeySecretOfLen(40, 3), KeySecretOfLen(20, 1), B("wJalrXUtnFEMI/K7MDENG+bPxRfiCYEXAMPLEKEY"),
                      KeySecretOfLen(40, 4), AWS4c >>

\* C17: also secrets the key type refuses (too long: e.g. a 40-character key with a trailing newline)
LeakSecrets == KeyChainSecrets \o << B("wJalrXUtnFEMI/K7MDENG+bPxRfiCYEXAMPLEKEY") \o <<10>>,
                                     B("wJalrXUtnFEMI/K7MDENG+bPxRfiCYEXAMPLEKEY") \o <<13, 10>>,
                                     KeySecretOfLen(64, 1) >>

HvalSigma == <<32, 97, 98, 44, 9, 233>>

\* C08 size ladder (canonical URI length around the http crate's 65534 limit, and far beyond)
FoldSizes == <<0, 1, 100, 65527, 65528, 65529, 65530, 65531, 65532, 65533, 65534, 65535, 65536, 70000, 1048576>>
FoldPaths == << B("/"), B("/abc"), B("/a/b/c/d/e/f") >>

ErrKinds == << "ExpiredToken", "IO", "InternalServiceError", "InvalidBodyEncoding", "InvalidClientTokenId",
               "InvalidContentType", "InvalidRequestMethod", "IncompleteSignature", "InvalidURIPath",
               "MalformedQueryString", "MissingAuthenticationToken", "SignatureDoesNotMatch" >>
ErrVias == << "direct", "box", "foreign", "io" >>

\* the six ASCII white-space candidates (VT is not white space for the trimming helpers), a letter, a high byte
TrimSigma == <<32, 9, 10, 11, 12, 13, 97, 233>>

\* C05 container: operation alphabet
VNames == << B("x-a"), B("X-A"), B("x-ab"), B("X-a") >>
VLists == << "always", "ifin", "prefix" >>
\* op k of 1..24: (add|remove) x list x name
VOp(k) == [op |-> IF ((k - 1) \div 12) = 0 THEN "add" ELSE "remove",
           list |-> VLists[(((k - 1) % 12) \div 4) + 1], name |-> VNames[((k - 1) % 4) + 1]]
VInits == << <<>>, << B("X-A") >>, << B("x-a"), B("X-B") >> >>

\* size of dimension k; 0 = no such dimension
Dim(k) ==
    CASE Family = "path_segs"    -> IF k = 1 THEN 2 ELSE IF k <= Bound + 1 THEN Len(PathSigma) ELSE 0
      [] Family = "path_bytes"   -> IF k <= 4 THEN <<256, 5, 3, 2>>[k] ELSE 0
      [] Family = "path_escapes" -> IF k <= 4 THEN <<128, 128, 2, 2>>[k] ELSE 0
      [] Family = "path_trunc"   -> IF k <= 3 THEN <<128, 9, 2>>[k] ELSE 0
      [] Family = "query_trunc"  -> IF k <= 2 THEN <<128, 6>>[k] ELSE 0
      [] Family = "query_wide"   -> IF k <= 3 THEN <<Len(QWide) + 2, Len(QWide) + 2, 2>>[k] ELSE 0
      [] Family = "elem_bytes"   -> IF k <= 4 THEN <<256, 5, 2, 2>>[k] ELSE 0
      [] Family = "query_lists"  -> IF k <= Bound THEN 80 ELSE 0
      [] Family = "query_ampamp" -> IF k = 1 THEN 3 ELSE IF k <= Bound + 1 THEN 80 ELSE 0
      [] Family = "query_bytes"  -> IF k <= 3 THEN <<256, 5, 3>>[k] ELSE 0
      [] Family = "query_escapes" -> IF k <= 3 THEN <<128, 128, 2>>[k] ELSE 0
      [] Family = "query_many"   -> IF k <= 2 THEN <<4, 40>>[k] ELSE 0
      [] Family = "ts_field"     -> IF k <= 3 THEN <<5, 100, 2>>[k] ELSE 0
      [] Family = "ts_year"      -> IF k <= 2 THEN <<Len(TsYears), 2>>[k] ELSE 0
      [] Family = "ts_offset"    -> IF k <= 4 THEN <<2, 100, 100, 2>>[k] ELSE 0
      [] Family = "ts_calendar"  -> IF k <= 4 THEN <<Len(TsCalYears), 12, 31, 2>>[k] ELSE 0
      [] Family = "ts_frac"      -> IF k <= 4 THEN <<13, 2, 3, 2>>[k] ELSE 0
      [] Family = "ts_seps"      -> IF k <= 5 THEN <<2, 2, 2, 2, Len(TsZones)>>[k] ELSE 0
      [] Family = "ts_affix"     -> IF k = 1 THEN Len(TsAffix) ELSE 0
      [] Family = "ts_subst"     -> IF k <= 3 THEN <<2, 20, 8>>[k] ELSE 0
      [] Family = "key_caps"     -> IF k <= 3 THEN <<Len(KeyLens), 4, Len(KeyCaps)>>[k] ELSE 0
      [] Family = "key_chain"    -> IF k <= 4 THEN <<Len(KeyChainSecrets), Len(KeyDates), Len(KeyNames), Len(KeyNames)>>[k] ELSE 0
      [] Family = "hval"         -> IF k <= Bound THEN Len(HvalSigma) ELSE 0
      [] Family = "foldsize"     -> IF k <= 3 THEN <<Len(FoldSizes), Len(FoldPaths), 2>>[k] ELSE 0
      [] Family = "errtable"     -> IF k <= 2 THEN <<Len(ErrKinds), Len(ErrVias)>>[k] ELSE 0
      [] Family = "builders"     -> IF k = 1 THEN 1 ELSE 0
      [] Family = "helper_bytes" -> IF k <= 2 THEN <<3, 256>>[k] ELSE 0
      [] Family = "helper_trim"  -> IF k = 1 THEN 3 ELSE IF k <= Bound + 1 THEN Len(TrimSigma) ELSE 0
      [] Family = "leakfn"       -> IF k = 1 THEN Len(LeakSecrets) ELSE 0
      [] Family = "vreqs"        -> IF k = 1 THEN Len(VInits) ELSE IF k <= Bound + 1 THEN 24 ELSE 0

\* does this node denote a case?  (variable-length families emit at every depth)
IsCase ==
    CASE Family = "path_segs"    -> Len(idx) >= 1
      [] Family = "query_lists"  -> TRUE
      [] Family = "query_ampamp" -> Len(idx) >= 2
      [] Family = "hval"         -> TRUE
      [] Family = "helper_trim"  -> Len(idx) >= 1
      [] Family = "vreqs"        -> Len(idx) >= 1
      [] OTHER -> Dim(Len(idx) + 1) = 0

TsCase ==
    CASE Family = "ts_field" ->
            LET v   == Dec(idx[2] - 1, 2)
                ext == Bool(idx[3])
                f(k, dflt) == IF idx[1] = k THEN v ELSE dflt
            IN TsMake(B("2015"), f(1, B("08")), f(2, B("30")), f(3, B("12")), f(4, B("36")), f(5, B("00")),
                      ext, ext, ext, ext, <<>>, B("Z"))
      [] Family = "ts_year" ->
            LET ext == Bool(idx[2]) IN
            TsMake(TsYears[idx[1]], B("03"), B("01"), B("12"), B("36"), B("00"), ext, ext, ext, ext, <<>>, B("Z"))
      [] Family = "ts_offset" ->
            TsBase(Bool(idx[4]), <<IF idx[1] = 1 THEN 43 ELSE 45>> \o Dec(idx[2] - 1, 2)
                                  \o (IF Bool(idx[4]) THEN <<58>> ELSE <<>>) \o Dec(idx[3] - 1, 2))
      [] Family = "ts_calendar" ->
            LET ext == Bool(idx[4]) IN
            TsMake(TsCalYears[idx[1]], Dec(idx[2], 2), Dec(idx[3], 2), B("23"), B("59"), B("59"),
                   ext, ext, ext, ext, <<>>, B("Z"))
      [] Family = "ts_frac" ->
            LET ext == Bool(idx[4]) IN
            TsMake(B("2015"), B("08"), B("30"), B("12"), B("36"), B("00"), ext, ext, ext, ext,
                   <<IF idx[2] = 1 THEN 46 ELSE 44>> \o TsFracDigits(idx[1] - 1, idx[3]), B("Z"))
      [] Family = "ts_seps" ->
            TsMake(B("2015"), B("08"), B("30"), B("12"), B("36"), B("00"),
                   Bool(idx[1]), Bool(idx[2]), Bool(idx[3]), Bool(idx[4]), <<>>, TsZones[idx[5]])
      [] Family = "ts_affix" -> TsAffix[idx[1]]
      [] Family = "ts_subst" ->
            \* every position of the basic / extended rendering replaced by a sign, a blank or another separator
            LET base == TsBase(Bool(idx[1]), B("Z"))
                c == <<43, 45, 32, 58, 46, 48, 84, 90>>[idx[3]]
            IN IF idx[2] <= Len(base) THEN [base EXCEPT ![idx[2]] = c] ELSE base \o <<c>>

Case ==
    CASE Family = "path_segs" ->
            [op |-> "path", s3 |-> Bool(idx[1]),
             p |-> SL \o Join([i \in 1..(Len(idx) - 1) |-> PathSigma[idx[i + 1]]], SL)]
      [] Family = "path_bytes" ->
            [op |-> "path", s3 |-> Bool(idx[4]), p |-> PathContext(Spelling(idx[1] - 1, idx[2]), idx[3])]
      [] Family = "path_escapes" ->
            LET e == <<37, idx[1] - 1, idx[2] - 1>> IN
            [op |-> "path", s3 |-> Bool(idx[4]),
             p |-> IF idx[3] = 1 THEN SL \o e ELSE SL \o B("s") \o e \o B("t") \o SL]
      [] Family = "path_trunc" ->
            LET x == idx[1] - 1 IN
            [op |-> "path", s3 |-> Bool(idx[3]),
             p |-> CASE idx[2] = 1 -> SL \o <<37, x>>
                     [] idx[2] = 2 -> SL \o <<37, x>> \o SL \o B("a")
                     [] idx[2] = 3 -> SL \o B("a") \o <<37>>
                     [] idx[2] = 4 -> SL \o <<37>> \o SL
                     [] idx[2] = 5 -> SL \o B("a") \o SL \o <<37, x>>
                     \* a broken escape whose would-be hex digits run into a multi-byte character
                     [] idx[2] = 6 -> SL \o <<37, x, 195, 169>>
                     [] idx[2] = 7 -> SL \o <<37, 195, 169, x>>
                     [] idx[2] = 8 -> SL \o <<37, 226, 130, 172>> \o SL \o <<x>>
                     [] idx[2] = 9 -> SL \o B("a") \o <<37, x, 240, 159, 152, 128>> \o SL \o B("b")]
      [] Family = "query_wide" ->
            \* raw multi-byte characters (above U+00FF) in names and values, next to ordinary components
            LET comp(i) == IF i <= Len(QWide) THEN QWide[i] ELSE IF i = Len(QWide) + 1 THEN B("a=1") ELSE B("z")
            IN [op |-> "query", q |-> IF idx[3] = 1 THEN comp(idx[1]) \o <<38>> \o comp(idx[2]) ELSE comp(idx[1])]
      [] Family = "query_trunc" ->
            LET x == idx[1] - 1 IN
            [op |-> "query",
             q |-> CASE idx[2] = 1 -> B("k=") \o <<37, x, 195, 169>>
                     [] idx[2] = 2 -> <<37, x, 195, 169>> \o B("=v")
                     [] idx[2] = 3 -> B("k=v") \o <<37, x>>
                     [] idx[2] = 4 -> B("k=") \o <<37, 195, 169, x>>
                     [] idx[2] = 5 -> B("a=1&k=") \o <<37, 226, 130, 172, x>> \o B("&b=2")
                     [] idx[2] = 6 -> B("k") \o <<37>> \o B("=") \o <<x>>]
      [] Family = "elem_bytes" ->
            LET sp == Spelling(idx[1] - 1, idx[2]) IN
            [op |-> "elem", plus |-> Bool(idx[4]), el |-> IF idx[3] = 1 THEN sp ELSE B("x") \o sp \o B("y")]
      [] Family = "query_lists" ->
            [op |-> "query", q |-> QOf(idx, <<38>>)]
      [] Family = "query_ampamp" ->
            LET f == Tail(idx) IN
            [op |-> "query", q |-> CASE idx[1] = 1 -> QOf(f, <<38, 38>>)
                                     [] idx[1] = 2 -> <<38>> \o QOf(f, <<38>>)
                                     [] idx[1] = 3 -> QOf(f, <<38>>) \o <<38>>]
      [] Family \in {"ts_field", "ts_year", "ts_offset", "ts_calendar", "ts_frac", "ts_seps", "ts_affix", "ts_subst"} ->
            [op |-> "ts", s |-> TsCase]
      [] Family = "key_caps" ->
            [op |-> "key", secret |-> KeySecretOfLen(KeyLens[idx[1]], idx[2]), cap |-> KeyCaps[idx[3]],
             date |-> <<2015, 8, 30>>, region |-> B("us-east-1"), service |-> B("service")]
      [] Family = "key_chain" ->
            [op |-> "key", secret |-> KeyChainSecrets[idx[1]], cap |-> 44, date |-> KeyDates[idx[2]],
             region |-> KeyNames[idx[3]], service |-> KeyNames[idx[4]]]
      [] Family = "hval" ->
            [op |-> "hval", v |-> [i \in 1..Len(idx) |-> HvalSigma[idx[i]]]]
      [] Family = "foldsize" -> [op |-> "foldsize", n |-> FoldSizes[idx[1]], path |-> FoldPaths[idx[2]], fold |-> Bool(idx[3])]
      [] Family = "errtable" -> [op |-> "err", kind |-> ErrKinds[idx[1]], via |-> ErrVias[idx[2]]]
      [] Family = "builders" -> [op |-> "builders"]
      [] Family = "helper_bytes" -> [op |-> "helper", f |-> <<"hex", "unres", "latin1">>[idx[1]], b |-> <<idx[2] - 1>>]
      [] Family = "helper_trim" ->
            [op |-> "helper", f |-> <<"trim", "trim_start", "trim_end">>[idx[1]],
             b |-> [i \in 1..(Len(idx) - 1) |-> TrimSigma[idx[i + 1]]]]
      [] Family = "leakfn" -> [op |-> "leakfn", secret |-> LeakSecrets[idx[1]]]
      [] Family = "vreqs" ->
            [op |-> "vreqs", always |-> VInits[idx[1]], ifin |-> VInits[idx[1]], prefix |-> VInits[idx[1]],
             ops |-> [i \in 1..(Len(idx) - 1) |-> VOp(idx[i + 1])]]
      [] Family = "query_many" ->
            \* many parameters with few names (long runs of equal names with different values), in 40 rotations
            LET n    == <<21, 33, 40, 64>>[idx[1]]
                name(i) == <<97 + (i % 3)>>
                pair(i) == name(i) \o <<61>> \o Dec((i * 7) % n, 2)
                rot  == idx[2] - 1
            IN [op |-> "query", q |-> Join([i \in 1..n |-> pair(((i + rot) % n) + 1)], <<38>>)]
      [] Family = "query_escapes" ->
            LET e == <<37, idx[1] - 1, idx[2] - 1>> IN
            [op |-> "query", q |-> IF idx[3] = 1 THEN B("v=") \o e ELSE B("a") \o e \o B("b=1&c=2")]
      [] Family = "query_bytes" ->
            LET sp == Spelling(idx[1] - 1, idx[2]) IN
            [op |-> "query", q |-> CASE idx[3] = 1 -> B("k=") \o sp
                                     [] idx[3] = 2 -> sp \o B("=v")
                                     [] idx[3] = 3 -> B("a=1&k") \o sp \o B("=2")]

Init == idx = <<>>
Next == \E i \in 1..Dim(Len(idx) + 1) : idx' = Append(idx, i)
Spec == Init /\ [][Next]_idx

\* evaluated once per state: one line per case
Emit == IsCase => PrintT(ToJson(Case))
=============================================================================
