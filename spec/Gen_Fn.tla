------------------------------- MODULE Gen_Fn -------------------------------
(***************************************************************************)
(* Campaign E for the function-level properties: TLC enumerates, exactly  *)
(* as the property quantifies, the finite input spaces and prints one     *)
(* case per state.  No expectations are printed: what the library does    *)
(* with each input is recorded by the harness and judged by Trace_Fn.tla. *)
(*                                                                         *)
(* Every family is an index tree: the state is a sequence of indices, the *)
(* k-th index ranging over 1..Dim(k); Next appends one index, so the      *)
(* enumeration is a breadth-first search that TLC runs on all workers     *)
(* (initial-state enumeration alone is single-threaded).                  *)
(***************************************************************************)
EXTENDS Bytes, Json

CONSTANTS Family,   \* which finite space to enumerate
          Bound     \* its size parameter

VARIABLE idx

SL == <<47>>

\* C09 (3): segment alphabet covering dots, escaped dots, escaped slashes, empty segments,
\* bad escapes, the literal '+', sub-delims and needless escapes
PathSigma == << B("a"), B("."), B(".."), B("%2E"), B("%2e%2E"), B(".%2e"), <<>>, B("%2F"),
                B("%zz"), B("%4"), B("+"), B("*"), B("~"), B("%7e"), B("a%41") >>

\* C09 (1): every byte in every spelling
Utf8Lit(b) == IF b < 128 THEN <<b>> ELSE <<192 + (b \div 64), 128 + (b % 64)>>
Spelling(b, k) == CASE k = 1 -> Utf8Lit(b)
                    [] k = 2 -> <<37, HexUp(b \div 16), HexUp(b % 16)>>
                    [] k = 3 -> <<37, HexLo(b \div 16), HexLo(b % 16)>>
                    [] k = 4 -> <<37, HexUp(b \div 16), HexLo(b % 16)>>
                    [] k = 5 -> <<37, HexLo(b \div 16), HexUp(b % 16)>>
PathContext(sp, k) == CASE k = 1 -> SL \o sp
                        [] k = 2 -> SL \o B("x") \o sp \o B("y")
                        [] k = 3 -> SL \o B("d") \o SL \o sp \o SL

\* C10: parameter alphabet with names that are prefixes of one another followed by
\* characters sorting below '=', case variants, respellings, the signature parameter
QNames  == << B("a"), B("a1"), B("a-"), B("a."), B("a%3D"), B("%61"), B("A"), <<>>,
              B("X-Amz-Signature"), B("X%2DAmz-Signature") >>
QValues == << <<>>, B("1"), B("2"), B("%20"), B("+"), B("b=c"), B("%zz") >>
\* component k of 1..80: name=value for 70 combinations, bare name for 10
QComp(k) == IF k <= 70 THEN QNames[((k - 1) \div 7) + 1] \o <<61>> \o QValues[((k - 1) % 7) + 1]
            ELSE QNames[k - 70]
QOf(f, sep) == Join([i \in 1..Len(f) |-> QComp(f[i])], sep)

Bool(k) == k = 2

\* size of dimension k; 0 = no such dimension
Dim(k) ==
    CASE Family = "path_segs"    -> IF k = 1 THEN 2 ELSE IF k <= Bound + 1 THEN Len(PathSigma) ELSE 0
      [] Family = "path_bytes"   -> IF k <= 4 THEN <<256, 5, 3, 2>>[k] ELSE 0
      [] Family = "path_escapes" -> IF k <= 4 THEN <<128, 128, 2, 2>>[k] ELSE 0
      [] Family = "path_trunc"   -> IF k <= 3 THEN <<128, 5, 2>>[k] ELSE 0
      [] Family = "elem_bytes"   -> IF k <= 4 THEN <<256, 5, 2, 2>>[k] ELSE 0
      [] Family = "query_lists"  -> IF k <= Bound THEN 80 ELSE 0
      [] Family = "query_ampamp" -> IF k = 1 THEN 3 ELSE IF k <= Bound + 1 THEN 80 ELSE 0
      [] Family = "query_bytes"  -> IF k <= 3 THEN <<256, 5, 3>>[k] ELSE 0

\* does this node denote a case?  (variable-length families emit at every depth)
IsCase ==
    CASE Family = "path_segs"    -> Len(idx) >= 1
      [] Family = "query_lists"  -> TRUE
      [] Family = "query_ampamp" -> Len(idx) >= 2
      [] OTHER -> Dim(Len(idx) + 1) = 0

Case ==
    CASE Family = "path_segs" ->
            [op |-> "path", s3 |-> Bool(idx[1]),
             p |-> SL \o Join([i \in 1..(Len(idx) - 1) |-> PathSigma[idx[i + 1]]], SL)]
      [] Family = "path_bytes" ->
            [op |-> "path", s3 |-> Bool(idx[4]), p |-> PathContext(Spelling(idx[1] - 1, idx[2]), idx[3])]
      [] Family = "path_escapes" ->
            LET e == <<37, idx[1] - 1, idx[2] - 1>> IN
            [op |-> "path", s3 |-> Bool(idx[4]),
             p |-> IF idx[3] = 1 THEN SL \o e ELSE SL \o B("s") \o e \o B("t") \o SL]
      [] Family = "path_trunc" ->
            LET x == idx[1] - 1 IN
            [op |-> "path", s3 |-> Bool(idx[3]),
             p |-> CASE idx[2] = 1 -> SL \o <<37, x>>
                     [] idx[2] = 2 -> SL \o <<37, x>> \o SL \o B("a")
                     [] idx[2] = 3 -> SL \o B("a") \o <<37>>
                     [] idx[2] = 4 -> SL \o <<37>> \o SL
                     [] idx[2] = 5 -> SL \o B("a") \o SL \o <<37, x>>]
      [] Family = "elem_bytes" ->
            LET sp == Spelling(idx[1] - 1, idx[2]) IN
            [op |-> "elem", plus |-> Bool(idx[4]), el |-> IF idx[3] = 1 THEN sp ELSE B("x") \o sp \o B("y")]
      [] Family = "query_lists" ->
            [op |-> "query", q |-> QOf(idx, <<38>>)]
      [] Family = "query_ampamp" ->
            LET f == Tail(idx) IN
            [op |-> "query", q |-> CASE idx[1] = 1 -> QOf(f, <<38, 38>>)
                                     [] idx[1] = 2 -> <<38>> \o QOf(f, <<38>>)
                                     [] idx[1] = 3 -> QOf(f, <<38>>) \o <<38>>]
      [] Family = "query_bytes" ->
            LET sp == Spelling(idx[1] - 1, idx[2]) IN
            [op |-> "query", q |-> CASE idx[3] = 1 -> B("k=") \o sp
                                     [] idx[3] = 2 -> sp \o B("=v")
                                     [] idx[3] = 3 -> B("a=1&k") \o sp \o B("=2")]

Init == idx = <<>>
Next == \E i \in 1..Dim(Len(idx) + 1) : idx' = Append(idx, i)
Spec == Init /\ [][Next]_idx

\* evaluated once per state: one line per case
Emit == IsCase => PrintT(ToJson(Case))
=============================================================================
