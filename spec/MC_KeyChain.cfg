SPECIFICATION KSpec
INVARIANT PathIndependence
CONSTANT Secret <- mcSecret
CONSTANT Date <- mcDate
CONSTANT Region <- mcRegion
CONSTANT Service <- mcService
CHECK_DEADLOCK FALSE
