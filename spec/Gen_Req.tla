------------------------------- MODULE Gen_Req -------------------------------
(***************************************************************************)
(* Campaign E for whole requests: TLC enumerates logical requests, defect *)
(* subsets, provider scripts and mutations, renders them on the wire with *)
(* the reference signer (Wire.tla) and prints one case per leaf of the    *)
(* index tree.  While doing so it checks the consistency of the abstract  *)
(* pipeline model with the byte-level reading: the first rule Request!Q   *)
(* reports for a request carrying the defect set D is the minimum of D    *)
(* (ConsistentFirst).                                                      *)
(***************************************************************************)
EXTENDS Wire, Json

CONSTANTS Family, Bound
VARIABLE idx

Bool(k) == k = 2

Secret1 == B("wJalrXUtnFEMI/K7MDENG+bPxRfiCYEXAMPLEKEY")
Secret2 == B("anotherSecretKeyOfFortyCharacters0123456")
NowBase == Inst(2015, 8, 30, 12, 36, 0, 0)

BaseCfg == [region |-> B("us-east-1"), service |-> B("service"), now |-> NowBase, s3 |-> FALSE, fold |-> FALSE,
            always |-> <<>>, ifin |-> <<>>, prefix |-> <<>>, reqimpl |-> "slice", bodykind |-> "bytes"]
BaseScript == [readyIn |-> 0, ready |-> "ok", pendIn |-> 0, answer |-> "ok", errKind |-> "InvalidClientTokenId",
               principal |-> 7, secret |-> Secret1]

\* ---------------------------------------------------------------- logical request with defect knobs
\* extra knobs on top of Wire!DefaultL
L0 == DefaultL @@ [omit |-> {}, extraParam |-> <<>>, both |-> FALSE, none |-> FALSE]

AuthValueX(L) ==
    LET ps == (IF "cred" \in L.omit THEN <<>> ELSE << B("Credential=") \o Credential(L) >>)
              \o (IF "sh" \in L.omit THEN <<>> ELSE << B("SignedHeaders=") \o Join(L.signed, <<59>>) >>)
              \o (IF "sig" \in L.omit THEN <<>> ELSE << B("Signature=") \o bSIG >>)
              \o (IF L.extraParam = <<>> THEN <<>> ELSE <<L.extraParam>>)
    IN L.alg \o <<SP>> \o Join(ps, L.paramSep)

AuthQueryX(L) ==
    Join(<<B("X-Amz-Algorithm=") \o Enc(L.alg)>>
         \o (IF "cred" \in L.omit THEN <<>> ELSE <<B("X-Amz-Credential=") \o Enc(Credential(L))>>)
         \o (IF "date" \in L.omit THEN <<>> ELSE <<B("X-Amz-Date=") \o Enc(L.ts)>>)
         \o (IF L.hasToken THEN <<B("X-Amz-Security-Token=") \o Enc(L.token)>> ELSE <<>>)
         \o (IF "sh" \in L.omit THEN <<>> ELSE <<B("X-Amz-SignedHeaders=") \o Enc(Join(L.signed, <<59>>))>>)
         \o (IF "sig" \in L.omit THEN <<>> ELSE <<B("X-Amz-Signature=") \o bSIG>>), <<AMP>>)

MkX(L) ==
    LET q0 == L.query IN
    IF L.carrier = "hdr"
    THEN [method |-> L.method,
          uri |-> L.path \o (LET q == IF L.both THEN (IF q0 = <<>> THEN <<>> ELSE q0 \o <<AMP>>) \o B("X-Amz-Algorithm=AWS4-HMAC-SHA256")
                                      ELSE q0
                             IN IF q = <<>> THEN <<>> ELSE <<63>> \o q),
          headers |-> L.hdrs
                       \o (IF "date" \in L.omit THEN <<>> ELSE << <<L.dateHeader, L.ts>> >>)
                       \o (IF L.hasToken THEN << <<B("X-Amz-Security-Token"), L.token>> >> ELSE <<>>)
                       \o (IF L.none THEN <<>> ELSE << <<B("Authorization"), AuthValueX(L)>> >>),
          body |-> L.body]
    ELSE [method |-> L.method,
          uri |-> L.path \o (LET q == IF L.none THEN q0
                                      ELSE (IF q0 = <<>> THEN <<>> ELSE q0 \o <<AMP>>) \o AuthQueryX(L)
                             IN IF q = <<>> THEN <<>> ELSE <<63>> \o q),
          headers |-> L.hdrs \o (IF L.both THEN << <<B("Authorization"), AuthValueX(L)>> >> ELSE <<>>),
          body |-> L.body]

\* ---------------------------------------------------------------- defect injectors (one per rule)
DefectList == <<1, 2, 3, 5, 6, 7, 8, 9, 10, 11, 12, 13, 14, 16>>

\* a bundle is what a case is made of
Bundle0(carrier) ==
    [L |-> IF carrier = "hdr" THEN L0 ELSE [L0 EXCEPT !.carrier = "qry", !.signed = <<B("host")>>],
     cfg |-> BaseCfg, script |-> BaseScript, sigmut |-> "none"]

FormHdr == <<B("Content-Type"), B("application/x-www-form-urlencoded")>>

Inject(b, d, w) ==      \* w = witness number (1..3)
    CASE d = 1  -> [b EXCEPT !.L.path = CASE w = 1 -> B("/a/%zz/b") [] w = 2 -> B("/a/../../b") [] OTHER -> B("/a/%4")]
      [] d = 2  -> [b EXCEPT !.L.query = (IF @ = <<>> THEN <<>> ELSE @ \o <<AMP>>)
                                          \o (CASE w = 1 -> B("x=%zz") [] w = 2 -> B("%=1") [] OTHER -> B("y=%F"))]
      [] d = 3  -> [b EXCEPT !.cfg.fold = TRUE, !.L.method = B("POST"),
                             !.L.hdrs = @ \o << IF w = 2 THEN <<B("Content-Type"), B("application/x-www-form-urlencoded; charset=foobar")>>
                                                ELSE FormHdr >>,
                             !.L.body = CASE w = 1 -> <<97, 61, 255>> [] w = 2 -> B("a=1") [] OTHER -> B("a=%zz")]
      [] d = 5  -> IF w = 1 THEN [b EXCEPT !.L.both = TRUE] ELSE [b EXCEPT !.L.none = TRUE]
      [] d = 6  -> [b EXCEPT !.L.alg = IF w = 1 THEN B("AWS4-HMAC-SHA512") ELSE B("aws4-hmac-sha256")]
      [] d = 7  -> [b EXCEPT !.L.extraParam = IF w = 1 THEN B("bogus") ELSE B("Credential")]
      [] d = 8  -> [b EXCEPT !.L.omit = CASE w = 1 -> {"cred"} [] w = 2 -> {"sig", "date"} [] OTHER -> {"sh"}]
      [] d = 9  -> IF w = 1 THEN [b EXCEPT !.L.signed = IF b.L.carrier = "hdr" THEN <<B("x-amz-date")>> ELSE <<B("x-other")>>]
                   ELSE [b EXCEPT !.cfg.always = <<B("X-Required")>>]
      [] d = 10 -> [b EXCEPT !.L.ts = CASE w = 1 -> B("20151330T123600Z") [] w = 2 -> B("20150830T123600") [] OTHER -> B("yesterday")]
      [] d = 11 -> [b EXCEPT !.L.ts = IF w = 1 THEN B("20150830T122059Z") ELSE B("20150829T123600Z"),
                             !.L.scope = IF w = 1 THEN @ ELSE <<B("20150829"), @[2], @[3], @[4]>>]
      [] d = 12 -> [b EXCEPT !.L.ts = IF w = 1 THEN B("20150830T125101Z") ELSE B("20150831T123600Z"),
                             !.L.scope = IF w = 1 THEN @ ELSE <<B("20150831"), @[2], @[3], @[4]>>]
      [] d = 13 -> [b EXCEPT !.L.scope = IF w = 1 THEN <<@[1], @[2], @[3]>> ELSE <<@[1], @[2], @[3], @[4], B("extra")>>]
      [] d = 14 -> [b EXCEPT !.L.scope = CASE w = 1 -> [@ EXCEPT ![2] = B("us-west-2")]
                                           [] w = 2 -> [@ EXCEPT ![3] = B("other")]
                                           [] OTHER -> [@ EXCEPT ![1] = B("20150829")]]
      [] d = 16 -> [b EXCEPT !.sigmut = [kind |-> "flip", pos |-> IF w = 1 THEN 0 ELSE 63]]

RECURSIVE InjectAll(_, _, _, _)
InjectAll(b, ds, k, w) == IF k > Len(ds) THEN b ELSE InjectAll(Inject(b, ds[k], w), ds, k + 1, w)

\* ---------------------------------------------------------------- rendering a bundle as a case
CaseOfBundle(b, id) ==
    LET w   == MkX(b.L)
        r   == Q(EnvOfWire(w), b.cfg)
        dir == IF CanSign(r) THEN Directive(r, Secret1) @@ [sigmut |-> b.sigmut] ELSE "none"
    IN [op |-> "req", id |-> id, method |-> w.method, uri |-> w.uri, version |-> "HTTP/1.1",
        headers |-> w.headers, body |-> w.body, cfg |-> b.cfg, script |-> b.script, sign |-> dir]

FirstRuleOf(b) == Q(EnvOfWire(MkX(b.L)), b.cfg).err.rule

\* ---------------------------------------------------------------- families
Methods == <<B("GET"), B("POST"), B("DELETE"), B("PROPFIND")>>
Paths   == <<B("/"), B("/a/b"), B("/a%20b/%7Ec/"), B("/a//b/./c/../d"), B("/%E2%82%AC/x*y"), B("/a/b/")>>
Queries == << <<>>, B("a=1"), B("b=2&a=1&a=0"), B("a1=2&a=1&a-=3&A=4"), B("k=%20+%7e&k2=&k3"), B("x=%E2%82%AC&&y==z") >>
HdrSets == << <<>>,
              << <<B("X-Amz-Meta"), B("  a   b  ")>> >>,
              << <<B("My-Header1"), B("v1")>>, <<B("my-header1"), B("v2 ,  v3")>> >>,
              << <<B("Content-Type"), B("text/plain")>>, <<B("X-Empty"), <<>> >> >>,
              << <<B("Zeta"), <<233, 32, 32, 9, 120>> >>, <<B("alpha"), B("1")>> >> >>
Bodies  == << <<>>, B("hello world"), <<0, 255, 128, 10, 13>> >>
SignAll(L) ==     \* a signer that signs every header it sends
    LET names == {LowerSeq(L.hdrs[i][1]) : i \in 1..Len(L.hdrs)}
                 \cup (IF L.carrier = "hdr" THEN {LowerSeq(L.dateHeader)} ELSE {})
                 \cup (IF L.hasToken /\ L.carrier = "hdr" THEN {B("x-amz-security-token")} ELSE {})
    IN SortLex(SetToSeq(names))

DefectBits == SubSeq(idx, 2, Min2(Len(idx), Len(DefectList) + 1))
DefectSet == {DefectList[k] : k \in {j \in 1..Len(DefectBits) : DefectBits[j] = 2}}
NumSet(k) == Cardinality({j \in 2..Min2(k, Len(idx)) : idx[j] = 2})

Dim(k) ==
    CASE Family = "defects" ->
            IF k = 1 THEN 2
            ELSE IF k <= Len(DefectList) + 1 THEN (IF NumSet(k - 1) >= Bound THEN 1 ELSE 2)
            ELSE IF k = Len(DefectList) + 2 THEN 3          \* witness
            ELSE 0
      [] Family = "scripts"  -> IF k <= 6 THEN <<3, 3, 3, 3, 4, 5>>[k] ELSE 0
      [] Family = "sigmut"   -> IF k <= 2 THEN <<2, 68>>[k] ELSE 0
      [] Family = "base"     -> IF k <= 8 THEN (IF Bound = 0 THEN <<2, 2, 3, 3, 3, 2, 2, 2>> ELSE <<2, 4, 6, 6, 5, 3, 2, 2>>)[k] ELSE 0

IsLeaf == Dim(Len(idx) + 1) = 0
IsCase ==
    /\ IsLeaf
    /\ Family = "defects" => ~({11, 12} \subseteq DefectSet) /\ ~(7 \in DefectSet /\ idx[1] = 2)

CarrierOf(k) == IF k = 1 THEN "hdr" ELSE "qry"

BundleOf ==
    CASE Family = "defects" ->
            \* an unparsable date has no instant: {10, 11|12} is realised as {10} (masked anyway)
            InjectAll(Bundle0(CarrierOf(idx[1])),
                      SetToSortSeq(IF 10 \in DefectSet THEN DefectSet \ {11, 12} ELSE DefectSet, <), 1, idx[Len(idx)])
      [] Family = "scripts" ->
            LET b == Bundle0("hdr")
                pend == <<0, 1, 3>>
                outc == <<"ok", "sigerr", "foreign">>
                kinds == <<"InvalidClientTokenId", "ExpiredToken", "SignatureDoesNotMatch", "InternalServiceError">>
                dfs == <<0, 14, 16, 11, 8>>
                b2 == [b EXCEPT !.script = [readyIn |-> pend[idx[1]], ready |-> outc[idx[2]], pendIn |-> pend[idx[3]],
                                            answer |-> outc[idx[4]], errKind |-> kinds[idx[5]], principal |-> 40 + idx[1],
                                            secret |-> Secret1]]
            IN IF dfs[idx[6]] = 0 THEN b2 ELSE Inject(b2, dfs[idx[6]], 1)
      [] Family = "sigmut" ->
            LET b == Bundle0(CarrierOf(idx[1]))
                k == idx[2]
            IN [b EXCEPT !.sigmut = CASE k <= 64 -> [kind |-> "flip", pos |-> k - 1]
                                      [] k = 65 -> [kind |-> "upper"]
                                      [] k = 66 -> [kind |-> "trunc", n |-> 63]
                                      [] k = 67 -> [kind |-> "append", b |-> B("0")]
                                      [] k = 68 -> [kind |-> "empty"]]
      [] Family = "base" ->
            LET b == Bundle0(CarrierOf(idx[1]))
                L1 == [b.L EXCEPT !.method = Methods[idx[2]], !.path = Paths[idx[3]], !.query = Queries[idx[4]],
                                  !.hdrs = @ \o HdrSets[idx[5]], !.body = Bodies[idx[6]],
                                  !.hasToken = Bool(idx[7]), !.token = IF Bool(idx[7]) THEN B("AQoDYXdzEPT//////////wEXAMPLE+tok/en==") ELSE <<>>]
                L2 == IF idx[1] = 1 THEN [L1 EXCEPT !.signed = SignAll(L1)] ELSE [L1 EXCEPT !.signed = SignAll(L1)]
            IN [b EXCEPT !.L = L2, !.cfg.s3 = Bool(idx[8])]

Case == CaseOfBundle(BundleOf, <<Family>> \o idx)

\* abstract/concrete consistency: the earliest injected defect is the rule the byte-level reading reports
\* (rule 16 is not a structural rule; 0 = none)
ExpectedFirst == LET S == DefectSet \ {16} IN IF S = {} THEN 0 ELSE CHOOSE m \in S : \A x \in S : m <= x
ConsistentFirst == (IsCase /\ Family = "defects") => FirstRuleOf(BundleOf) = ExpectedFirst

Init == idx = <<>>
Next == \E i \in 1..Dim(Len(idx) + 1) : idx' = Append(idx, i)
Spec == Init /\ [][Next]_idx

Emit == IsCase => PrintT(ToJson(Case))
=============================================================================
