------------------------------- MODULE Gen_Req -------------------------------
(***************************************************************************)
(* Campaign E for whole requests: TLC enumerates logical requests, defect *)
(* subsets, provider scripts, spellings and mutations, renders them on    *)
(* the wire with the reference signer (Wire.tla) and prints one case per  *)
(* leaf of the index tree.  A case is                                      *)
(*    a wire request (signature = placeholder {SIG})                       *)
(*  + the symbolic term for the signature (which bytes under which key)    *)
(*  + server configuration + provider script.                              *)
(* A bundle may carry post-signing mutations of the wire (C01 mutations,  *)
(* C02 respellings, C11 header edits, C19 duplicates): the term is always *)
(* taken from the request the honest signer saw.  No expectation is       *)
(* printed; what must happen is decided by Trace_Req from the wire bytes. *)
(* While enumerating, TLC checks the abstract/concrete consistency        *)
(* (ConsistentFirst) and the spelling laws (SpellingKeepsCanonicalForm).  *)
(***************************************************************************)
EXTENDS Wire, Json, IOUtils

CONSTANTS Family, Bound

\* campaign R: logical requests proposed by the harness's seeded generator (no expectations, no canonical
\* forms); TLC signs them with the reference signer and applies the proposed tampering
Logical == ndJsonDeserialize(IOEnv.LOGICAL)
\* wire requests read from files (the AWS SigV4 test-suite copies in the repository): they carry a literal
\* signature computed by AWS; the specification reads them, derives what should have been signed, and the
\* verdict follows from comparing the presented signature with the oracle's - nothing is signed here
Wires == ndJsonDeserialize(IOEnv.WIRES)
VARIABLE idx

Bool(k) == k = 2

Secret1 == B("wJalrXUtnFEMI/K7MDENG+bPxRfiCYEXAMPLEKEY")
Secret2 == B("anotherSecretKeyOfFortyCharacters0123456")
NowBase == Inst(2015, 8, 30, 12, 36, 0, 0)

BaseCfg == [region |-> B("us-east-1"), service |-> B("service"), now |-> NowBase, s3 |-> FALSE, fold |-> FALSE,
            always |-> <<>>, ifin |-> <<>>, prefix |-> <<>>, reqimpl |-> "slice", bodykind |-> "bytes",
            provider |-> "scripted"]     \* "fn": the crate's own adapter service_for_signing_key_fn around an async closure
BaseScript == [readyIn |-> 0, ready |-> "ok", pendIn |-> 0, answer |-> "ok", errKind |-> "InvalidClientTokenId",
               principal |-> 7, secret |-> Secret1]

\* ---------------------------------------------------------------- logical request with defect knobs
L0 == DefaultL @@ [omit |-> {}, extraParam |-> <<>>, both |-> FALSE, none |-> FALSE, version |-> "HTTP/1.1"]

AuthValueX(L) ==
    LET ps == (IF "cred" \in L.omit THEN <<>> ELSE << B("Credential=") \o Credential(L) >>)
              \o (IF "sh" \in L.omit THEN <<>> ELSE << B("SignedHeaders=") \o Join(L.signed, <<59>>) >>)
              \o (IF "sig" \in L.omit THEN <<>> ELSE << B("Signature=") \o bSIG >>)
              \o (IF L.extraParam = <<>> THEN <<>> ELSE <<L.extraParam>>)
    IN L.alg \o <<SP>> \o Join(ps, L.paramSep)

AuthQueryX(L) ==
    Join(<<B("X-Amz-Algorithm=") \o Enc(L.alg)>>
         \o (IF "cred" \in L.omit THEN <<>> ELSE <<B("X-Amz-Credential=") \o Enc(Credential(L))>>)
         \o (IF "date" \in L.omit THEN <<>> ELSE <<B("X-Amz-Date=") \o Enc(L.ts)>>)
         \o (IF L.hasToken THEN <<B("X-Amz-Security-Token=") \o Enc(L.token)>> ELSE <<>>)
         \o (IF "sh" \in L.omit THEN <<>> ELSE <<B("X-Amz-SignedHeaders=") \o Enc(Join(L.signed, <<59>>))>>)
         \o (IF "sig" \in L.omit THEN <<>> ELSE <<B("X-Amz-Signature=") \o bSIG>>), <<AMP>>)

MkX(L) ==
    LET q0 == L.query IN
    IF L.carrier = "hdr"
    THEN [method |-> L.method, version |-> L.version,
          uri |-> L.path \o (LET q == IF L.both THEN (IF q0 = <<>> THEN <<>> ELSE q0 \o <<AMP>>) \o B("X-Amz-Algorithm=AWS4-HMAC-SHA256")
                                      ELSE q0
                             IN IF q = <<>> THEN <<>> ELSE <<63>> \o q),
          headers |-> L.hdrs
                       \o (IF "date" \in L.omit THEN <<>> ELSE << <<L.dateHeader, L.ts>> >>)
                       \o (IF L.hasToken THEN << <<B("X-Amz-Security-Token"), L.token>> >> ELSE <<>>)
                       \o (IF L.none THEN <<>> ELSE << <<B("Authorization"), AuthValueX(L)>> >>),
          body |-> L.body]
    ELSE [method |-> L.method, version |-> L.version,
          uri |-> L.path \o (LET q == IF L.none THEN q0
                                      ELSE (IF q0 = <<>> THEN <<>> ELSE q0 \o <<AMP>>) \o AuthQueryX(L)
                             IN IF q = <<>> THEN <<>> ELSE <<63>> \o q),
          headers |-> L.hdrs \o (IF L.both THEN << <<B("Authorization"), AuthValueX(L)>> >> ELSE <<>>),
          body |-> L.body]

\* ---------------------------------------------------------------- post-signing wire mutations
SetAt(s, i, c) == [s EXCEPT ![i] = c]
DropAt(s, i) == SubSeq(s, 1, i - 1) \o SubSeq(s, i + 1, Len(s))
PutAt(s, i, x) == SubSeq(s, 1, i - 1) \o <<x>> \o SubSeq(s, i, Len(s))
OtherByte(c) == IF c = 97 THEN 98 ELSE 97

Mut1(w, m) ==
    CASE m.k = "uribyte"  -> [w EXCEPT !.uri = SetAt(@, m.pos, OtherByte(@[m.pos]))]
      [] m.k = "uri"      -> [w EXCEPT !.uri = m.v]
      [] m.k = "uripre"   -> [w EXCEPT !.uri = m.v \o @]        \* origin form -> absolute form
      [] m.k = "hdrbyte"  -> [w EXCEPT !.headers[m.h][2] = SetAt(@, m.pos, OtherByte(@[m.pos]))]
      [] m.k = "hdrset"   -> [w EXCEPT !.headers[m.h][2] = m.v]
      [] m.k = "hdrname"  -> [w EXCEPT !.headers[m.h][1] = m.v]
      [] m.k = "hdrdel"   -> [w EXCEPT !.headers = DropAt(@, m.h)]
      [] m.k = "hdrins"   -> [w EXCEPT !.headers = PutAt(@, m.at, <<m.name, m.v>>)]
      [] m.k = "hdrswap"  -> [w EXCEPT !.headers = [@ EXCEPT ![m.i] = w.headers[m.j], ![m.j] = w.headers[m.i]]]
      [] m.k = "hdrs"     -> [w EXCEPT !.headers = m.v]
      [] m.k = "body"     -> [w EXCEPT !.body = m.v]
      [] m.k = "method"   -> [w EXCEPT !.method = m.v]
      [] m.k = "version"  -> [w EXCEPT !.version = m.v]
RECURSIVE MutAll(_, _, _)
MutAll(w, ms, k) == IF k > Len(ms) THEN w ELSE MutAll(Mut1(w, ms[k]), ms, k + 1)

\* ---------------------------------------------------------------- defect injectors (one per rule)
DefectList == <<1, 2, 3, 5, 6, 7, 8, 9, 10, 11, 12, 13, 14, 16>>

Bundle0(carrier) ==
    [L |-> IF carrier = "hdr" THEN L0 ELSE [L0 EXCEPT !.carrier = "qry", !.signed = <<B("host")>>],
     cfg |-> BaseCfg, script |-> BaseScript, sigmut |-> "none", post |-> <<>>, signSecret |-> Secret1,
     over |-> [none |-> TRUE]]

FormHdr == <<B("Content-Type"), B("application/x-www-form-urlencoded")>>

Inject(b, d, w) ==      \* w = witness number (1..3)
    CASE d = 1  -> [b EXCEPT !.L.path = CASE w = 1 -> B("/a/%zz/b") [] w = 2 -> B("/a/../../b") [] OTHER -> B("/a/%4")]
      [] d = 2  -> [b EXCEPT !.L.query = (IF @ = <<>> THEN <<>> ELSE @ \o <<AMP>>)
                                          \o (CASE w = 1 -> B("x=%zz") [] w = 2 -> B("%=1") [] OTHER -> B("y=%F"))]
      [] d = 3  -> [b EXCEPT !.cfg.fold = TRUE, !.L.method = B("POST"),
                             !.L.hdrs = @ \o << IF w = 2 THEN <<B("Content-Type"), B("application/x-www-form-urlencoded; charset=foobar")>>
                                                ELSE FormHdr >>,
                             !.L.body = CASE w = 1 -> <<97, 61, 255>> [] w = 2 -> B("a=1") [] OTHER -> B("a=%zz")]
      [] d = 5  -> IF w = 1 THEN [b EXCEPT !.L.both = TRUE] ELSE [b EXCEPT !.L.none = TRUE]
      [] d = 6  -> [b EXCEPT !.L.alg = IF w = 1 THEN B("AWS4-HMAC-SHA512") ELSE B("aws4-hmac-sha256")]
      [] d = 7  -> [b EXCEPT !.L.extraParam = IF w = 1 THEN B("bogus") ELSE B("Credential")]
      [] d = 8  -> [b EXCEPT !.L.omit = CASE w = 1 -> {"cred"} [] w = 2 -> {"sig", "date"} [] OTHER -> {"sh"}]
      [] d = 9  -> IF w = 1 THEN [b EXCEPT !.L.signed = IF b.L.carrier = "hdr" THEN <<B("x-amz-date")>> ELSE <<B("x-other")>>]
                   ELSE [b EXCEPT !.cfg.always = <<B("X-Required")>>]
      [] d = 10 -> [b EXCEPT !.L.ts = CASE w = 1 -> B("20151330T123600Z") [] w = 2 -> B("20150830T123600") [] OTHER -> B("yesterday")]
      [] d = 11 -> [b EXCEPT !.L.ts = IF w = 1 THEN B("20150830T122059Z") ELSE B("20150829T123600Z"),
                             !.L.scope = IF w = 1 THEN @ ELSE [@ EXCEPT ![1] = B("20150829")]]
      [] d = 12 -> [b EXCEPT !.L.ts = IF w = 1 THEN B("20150830T125101Z") ELSE B("20150831T123600Z"),
                             !.L.scope = IF w = 1 THEN @ ELSE [@ EXCEPT ![1] = B("20150831")]]
      [] d = 13 -> [b EXCEPT !.L.scope = IF w = 1 THEN <<@[1], @[2], @[3]>> ELSE @ \o <<B("extra")>>]
      [] d = 14 -> [b EXCEPT !.L.scope = CASE w = 1 -> [@ EXCEPT ![2] = B("us-west-2")]
                                           [] w = 2 -> [@ EXCEPT ![3] = B("other")]
                                           [] OTHER -> [@ EXCEPT ![1] = B("20150829")]]
      [] d = 16 -> [b EXCEPT !.sigmut = CASE w = 1 -> [kind |-> "flip", pos |-> 0] [] w = 2 -> [kind |-> "flip", pos |-> 63]
                                          [] OTHER -> [kind |-> "append", b |-> B("0")]]

RECURSIVE InjectAll(_, _, _, _)
InjectAll(b, ds, k, w) == IF k > Len(ds) THEN b ELSE InjectAll(Inject(b, ds[k], w), ds, k + 1, w)

\* ---------------------------------------------------------------- rendering a bundle as a case
\* ("none" \in DOMAIN b.over): the post-mutations happen to the request AFTER it was signed (tampering,
\* respelling).  Otherwise (C19) they are part of what the signer sends (duplicated inputs) and
\* b.over records the signer's own choice of timestamp / credential / signed list.
WireOf(b) == MutAll(MkX(b.L), b.post, 1)
SignedWireOf(b) == IF ("none" \in DOMAIN b.over) \/ ("honest" \in DOMAIN b.over) THEN MkX(b.L) ELSE WireOf(b)

SignerView(b, w0) ==
    LET r == Q(EnvOfWire(w0), b.cfg) IN
    IF ("none" \in DOMAIN b.over) \/ ("honest" \in DOMAIN b.over) \/ ~CanSign(r) THEN r
    ELSE LET signed == IF "signed" \in DOMAIN b.over THEN b.over.signed ELSE r.signed
             inst   == IF "ts" \in DOMAIN b.over THEN Parse(b.over.ts).inst ELSE r.inst
             cred   == IF "cred" \in DOMAIN b.over THEN b.over.cred ELSE r.cred
         IN [r EXCEPT !.signed = signed, !.inst = inst, !.cred = cred,
                      !.creqPres = {CReqPreOf(EnvOfWire(w0), p, r.cquery, signed) : p \in r.cpaths}]

CaseOfBundle(b, id) ==
    LET w0  == SignedWireOf(b)
        r   == SignerView(b, w0)
        dir == IF CanSign(r)
               THEN [sigmut |-> b.sigmut,
                     payloadhex |-> IF "payloadhex" \in DOMAIN b.over THEN b.over.payloadhex ELSE <<>>,
                     rawkey |-> IF "rawkey" \in DOMAIN b.over THEN b.over.rawkey ELSE <<>>] @@ Directive(r, b.signSecret)
               ELSE "none"
        w   == WireOf(b)
    IN [op |-> "req", id |-> id, method |-> w.method, uri |-> w.uri, version |-> w.version,
        headers |-> w.headers, body |-> w.body, cfg |-> b.cfg, script |-> b.script, sign |-> dir,
        leak |-> Family \in {"leak_defects", "leak_scripts", "leak_sigmut", "leak_long", "leak_cfg", "leak_midnight", "leak_window", "leak_scope"}
                 \/ (Family = "cfgmix" /\ id[9] = 2)]

FirstRuleOf(b) == Q(EnvOfWire(MkX(b.L)), b.cfg).err.rule

\* ---------------------------------------------------------------- material
Methods == <<B("GET"), B("POST"), B("DELETE"), B("PROPFIND"), B("M-SEARCH"), B("get"), B("pAtCh")>>
Versions == <<"HTTP/1.1", "HTTP/0.9", "HTTP/1.0", "HTTP/2.0", "HTTP/3.0">>
Paths   == <<B("/"), B("/a//b/./c/../d"), B("/a%20b/%7Ec/"), B("/a/b"), B("/%E2%82%AC/x*y"), B("/a/b/")>>
LongQuery == Join([i \in 1..36 |-> <<97 + (i % 3)>> \o <<61>> \o Dec((i * 7) % 36, 2)], <<AMP>>)
Queries == << <<>>, LongQuery, B("b=2&a=1&a=0&m=dGVzdA=="), B("a=1"), B("a1=2&a=1&a-=3&A=4"), B("k=%20+%7e&k2=&k3"), B("x=%E2%82%AC&&y==z") >>
HdrSets == << <<>>,
              << <<B("X-Amz-Meta"), B("  a   b  ")>>, <<B("Date"), B("Sun, 30 Aug 2015 12:36:00 GMT")>>,
                 <<B("X-Amz-Content-Sha256"), B("UNSIGNED-PAYLOAD")>> >>,
              << <<B("My-Header1"), B("v1")>>, <<B("my-header1"), <<>> >>, <<B("My-header1"), B("v2 ,  v3")>>, <<B("MY-HEADER1"), B("  ")>> >>,
              << <<B("Content-Type"), B("text/plain")>>, <<B("X-Empty"), <<>> >> >>,
              << <<B("Zeta"), <<233, 32, 32, 9, 120>> >>, <<B("alpha"), B("1")>> >> >>
Bodies  == << <<>>, B("hello world"), <<0, 255, 128, 10, 13>> >>
TokenV  == B("AQoDYXdzEPT//////////wEXAMPLE+tok/en==")

SignAll(L) ==     \* a signer that signs every header it sends
    LET names == {LowerSeq(L.hdrs[i][1]) : i \in 1..Len(L.hdrs)}
                 \cup (IF L.carrier = "hdr" THEN {LowerSeq(L.dateHeader)} ELSE {})
                 \cup (IF L.hasToken /\ L.carrier = "hdr" THEN {B("x-amz-security-token")} ELSE {})
    IN SortLex(SetToSeq(names))

CarrierOf(k) == IF k = 1 THEN "hdr" ELSE "qry"

\* a request with something in every component
RichL(carrier) ==
    LET L1 == [Bundle0(carrier).L EXCEPT !.method = B("POST"), !.path = B("/a%20b/c"), !.query = B("b=2&a=%20x&a=0&m=dGVzdA==&f=c=d"),
                                        !.hdrs = @ \o << <<B("X-Amz-Meta"), B("a  b") \o <<233>> >>, <<B("My-Header1"), B("v1")>>,
                                                        <<B("my-header1"), <<>> >>, <<B("my-header1"), B("v2")>>,
                                                        <<B("My-Header1-2"), B("w")>>, <<B("Unsigned"), B("u")>> >>,
                                        !.body = B("hello"), !.hasToken = TRUE, !.token = TokenV]
    IN [L1 EXCEPT !.signed = SelectSeq(SignAll(L1), LAMBDA n : n # B("unsigned"))]
RichB(carrier) == [Bundle0(carrier) EXCEPT !.L = RichL(carrier)]
RichW(carrier) == MkX(RichL(carrier))
\* three signed requests to tamper with (thorough): the rich one, one with UTF-8 / escapes / bare names, one in S3 mode
MutBase(carrier, v) ==
    CASE v = 1 -> RichB(carrier)
      [] v = 2 -> [RichB(carrier) EXCEPT !.L.paramSep = B(","), !.L.path = B("/%E2%82%AC/a-c_~.x/"),
                                        !.L.query = B("k=%E2%82%AC%20a&k=%2F&c=&a"), !.L.body = <<0, 255, 10>>]
      [] v = 3 -> [RichB(carrier) EXCEPT !.cfg.s3 = TRUE, !.L.path = B("/a//c/./%7Ea/../x"), !.L.hasToken = FALSE, !.L.token = <<>>,
                                        !.L.signed = SelectSeq(RichL(carrier).signed, LAMBDA n : n # B("x-amz-security-token"))]
MutW(carrier, v) == MkX(MutBase(carrier, v).L)
NumMutBase == IF Bound = 0 THEN 1 ELSE 3

\* flattened byte positions of all header values of a wire: <<header index, position>>
HdrPositions(w) == Cat([h \in 1..Len(w.headers) |-> [p \in 1..Len(w.headers[h][2]) |-> <<h, p>>]])
HdrIndex(w, name) == CHOOSE h \in 1..Len(w.headers) : LowerSeq(w.headers[h][1]) = name
                                                      /\ \A h2 \in 1..(h - 1) : LowerSeq(w.headers[h2][1]) # name

\* respelling helpers (C02)
FlipHexCase(s) == [i \in 1..Len(s) |->
                     IF ((i > 1 /\ s[i-1] = PCT) \/ (i > 2 /\ s[i-2] = PCT)) /\ HexVal(s[i]) >= 10
                     THEN (IF IsUpper(s[i]) THEN s[i] + 32 ELSE s[i] - 32) ELSE s[i]]
EscapeUnreservedAlpha(s) ==     \* needlessly escape every unreserved letter 'a' and 'c' outside escapes
    Cat([i \in 1..Len(s) |->
           IF s[i] \in {97, 99} /\ ~((i > 1 /\ s[i-1] = PCT) \/ (i > 2 /\ s[i-2] = PCT))
           THEN <<PCT, HexLo(s[i] \div 16), HexLo(s[i] % 16)>> ELSE <<s[i]>>])
PctSpaceToPlus(q) ==
    Cat([i \in 1..Len(q) |->
           IF q[i] = PCT /\ i + 2 <= Len(q) /\ q[i+1] = 50 /\ q[i+2] = 48 THEN <<PLUS>>
           ELSE IF (i > 1 /\ q[i-1] = PCT /\ q[i] = 50 /\ i + 1 <= Len(q) /\ q[i+1] = 48)
                   \/ (i > 2 /\ q[i-2] = PCT /\ q[i-1] = 50 /\ q[i] = 48) THEN <<>>
           ELSE <<q[i]>>])
ReverseSeq(s) == [i \in 1..Len(s) |-> s[Len(s) + 1 - i]]
UriPath(u) == Split2(u, 63)[1]
UriQuery(u) == IF Len(Split2(u, 63)) = 2 THEN Split2(u, 63)[2] ELSE <<>>
UriOf(p, q) == p \o (IF q = <<>> THEN <<>> ELSE <<63>> \o q)
SpaceOut(v) == <<SP, SP>> \o Cat([i \in 1..Len(v) |-> IF v[i] = SP THEN <<SP, SP, SP>> ELSE <<v[i]>>]) \o <<SP>>
\* stable reordering across different names: all headers named like the last one first
GroupLastFirst(hs) ==
    LET n == LowerSeq(hs[Len(hs)][1])
    IN SelectSeq(hs, LAMBDA h : LowerSeq(h[1]) = n) \o SelectSeq(hs, LAMBDA h : LowerSeq(h[1]) # n)

SpellRecipe(w, k) ==
    CASE k = 1  -> << >>
      [] k = 2  -> << [k |-> "uri", v |-> FlipHexCase(w.uri)] >>
      [] k = 3  -> << [k |-> "uri", v |-> UriOf(EscapeUnreservedAlpha(UriPath(w.uri)), UriQuery(w.uri))] >>
      [] k = 4  -> << [k |-> "uri", v |-> UriOf(UriPath(w.uri), PctSpaceToPlus(UriQuery(w.uri)))] >>
      [] k = 5  -> << [k |-> "uri", v |-> UriOf(UriPath(w.uri), Join(ReverseSeq(SplitOn(UriQuery(w.uri), AMP)), <<AMP>>))] >>
      [] k = 6  -> << [k |-> "uri", v |-> UriOf(UriPath(w.uri), <<AMP>> \o Join(SplitOn(UriQuery(w.uri), AMP), <<AMP, AMP>>) \o <<AMP>>)] >>
      [] k = 7  -> << [k |-> "hdrs", v |-> [h \in 1..Len(w.headers) |-> <<UpperSeq(w.headers[h][1]), w.headers[h][2]>>]] >>
      [] k = 8  -> << [k |-> "hdrs", v |-> [h \in 1..Len(w.headers) |->
                                             IF LowerSeq(w.headers[h][1]) = bAuthorization THEN w.headers[h]
                                             ELSE <<w.headers[h][1], SpaceOut(w.headers[h][2])>>]] >>
      [] k = 9  -> << [k |-> "hdrs", v |-> GroupLastFirst(w.headers)] >>
      [] k = 10 -> << [k |-> "uri", v |-> UriOf(UriPath(w.uri), EscapeUnreservedAlpha(UriQuery(w.uri)))] >>
      [] k = 11 -> << [k |-> "version", v |-> "HTTP/2.0"] >>
      [] k = 12 -> << [k |-> "uri", v |-> UriOf(EscapeUnreservedAlpha(FlipHexCase(UriPath(w.uri))),
                                                 <<AMP>> \o Join(ReverseSeq(SplitOn(PctSpaceToPlus(UriQuery(w.uri)), AMP)), <<AMP, AMP>>))],
                      [k |-> "hdrs", v |-> GroupLastFirst([h \in 1..Len(w.headers) |->
                                             IF LowerSeq(w.headers[h][1]) = bAuthorization THEN <<UpperSeq(w.headers[h][1]), w.headers[h][2]>>
                                             ELSE <<UpperSeq(w.headers[h][1]), SpaceOut(w.headers[h][2])>>])] >>
      \* the same target in absolute form (what a client sends to a proxy; the http crate keeps scheme and authority)
      [] k = 13 -> << [k |-> "uripre", v |-> B("https://example.amazonaws.com")] >>
      [] k = 14 -> << [k |-> "uripre", v |-> B("HTTP://other.example:8080")] >>
      \* empty entries in the Authorization parameter list (doubled and trailing commas) are skipped
      [] k = 15 -> << [k |-> "hdrs", v |-> [h \in 1..Len(w.headers) |->
                                             IF LowerSeq(w.headers[h][1]) = bAuthorization
                                             THEN <<w.headers[h][1], Join(SplitOn(w.headers[h][2], 44), <<44, 44>>) \o <<44>> >>
                                             ELSE w.headers[h]]] >>
      [] k = 16 -> << [k |-> "hdrs", v |-> [h \in 1..Len(w.headers) |->
                                             IF LowerSeq(w.headers[h][1]) = bAuthorization
                                             THEN <<w.headers[h][1], LET parts == Split2(w.headers[h][2], 32) IN parts[1] \o B(" , ,") \o parts[2]>>
                                             ELSE w.headers[h]]] >>
NumSpell == 16

\* C01: structural single-component mutations of the rich request
StructMut(w, k) ==
    LET hm  == HdrIndex(w, B("my-header1"))
        hu  == HdrIndex(w, B("unsigned"))
        hx  == HdrIndex(w, B("x-amz-meta"))
        qs  == SplitOn(UriQuery(w.uri), AMP)
    IN CASE k = 1  -> << [k |-> "hdrswap", i |-> hm, j |-> hm + 1] >>                      \* value order of a signed header
         [] k = 2  -> << [k |-> "hdrdel", h |-> hm + 1] >>                                 \* drop a value
         [] k = 3  -> << [k |-> "hdrins", at |-> hm, name |-> B("My-Header1"), v |-> B("v1")] >>  \* duplicate a value
         [] k = 4  -> << [k |-> "hdrins", at |-> 1, name |-> B("X-New"), v |-> B("n")] >>  \* add an unsigned header
         [] k = 5  -> << [k |-> "hdrdel", h |-> hu] >>                                     \* remove an unsigned header
         [] k = 6  -> << [k |-> "hdrset", h |-> hu, v |-> B("changed")] >>                 \* change an unsigned header
         [] k = 7  -> << [k |-> "hdrset", h |-> hx, v |-> B(" a b") \o <<233, 32>>] >>        \* respace a signed value
         [] k = 8  -> << [k |-> "hdrset", h |-> hx, v |-> B("ab") \o <<233>>] >>              \* remove the inner space
         [] k = 9  -> << [k |-> "hdrset", h |-> hx, v |-> B("A  b") \o <<233>>] >>            \* letter case of a value
         [] k = 21 -> << [k |-> "hdrset", h |-> hx, v |-> B("a  b") \o <<232>>] >>            \* another Latin-1 byte
         [] k = 22 -> << [k |-> "hdrset", h |-> hx, v |-> B("a  b") \o <<239, 191, 189>>] >>  \* U+FFFD in its place
         [] k = 23 -> << [k |-> "hdrins", at |-> 1, name |-> B("Content-Type"),
                          v |-> B("application/x-www-form-urlencoded; charset=klingon")] >>     \* unsigned, not consulted (no folding)
         [] k = 24 -> << [k |-> "hdrins", at |-> 1, name |-> B("Content-Type"), v |-> B("text/plain; charset=\"")] >>
         [] k = 10 -> << [k |-> "method", v |-> B("PUT")] >>
         [] k = 11 -> << [k |-> "version", v |-> "HTTP/1.0"] >>
         [] k = 12 -> << [k |-> "uri", v |-> UriOf(UriPath(w.uri), Join(DropAt(qs, 1), <<AMP>>))] >>       \* drop a parameter
         [] k = 13 -> << [k |-> "uri", v |-> UriOf(UriPath(w.uri), Join(<<qs[1]>> \o qs, <<AMP>>))] >>       \* duplicate a parameter
         [] k = 14 -> << [k |-> "uri", v |-> UriOf(UriPath(w.uri), Join(qs \o <<B("z=9")>>, <<AMP>>))] >>    \* add a parameter
         [] k = 15 -> << [k |-> "uri", v |-> UriOf(UriPath(w.uri) \o B("/"), UriQuery(w.uri))] >>            \* trailing slash
         [] k = 16 -> << [k |-> "body", v |-> <<>>] >>
         [] k = 17 -> << [k |-> "body", v |-> w.body \o B("!")] >>
         [] k = 18 -> << [k |-> "body", v |-> SubSeq(w.body, 1, Len(w.body) - 1)] >>
         [] k = 19 -> << [k |-> "hdrname", h |-> hx, v |-> B("X-Amz-Metb")] >>                                \* rename a signed header
         [] k = 20 -> << [k |-> "hdrset", h |-> HdrIndex(w, bHost), v |-> B("evil.example.com")] >>
NumStruct == 24

\* ---------------------------------------------------------------- C03 material
ScopeVariants == <<
    <<B("20150830"), B("us-east-1"), B("service"), B("aws4_request")>>,
    <<>>, <<B("20150830")>>, <<B("20150830"), B("us-east-1")>>,
    <<B("20150830"), B("us-east-1"), B("service")>>,
    <<B("20150830"), B("us-east-1"), B("service"), B("aws4_request"), <<>> >>,
    <<B("20150830"), B("us-east-1"), <<>>, B("service"), B("aws4_request")>>,
    <<B("20150830"), B("us-east-1"), B("service"), B("aws4_request"), B("x"), B("y")>>,
    <<B("20150830"), B("us-east"), B("service"), B("aws4_request")>>,
    <<B("20150830"), B("east-1"), B("service"), B("aws4_request")>>,
    <<B("20150830"), B("US-EAST-1"), B("service"), B("aws4_request")>>,
    <<B("20150830"), <<>>, B("service"), B("aws4_request")>>,
    <<B("20150830"), B("us-east-1a"), B("service"), B("aws4_request")>>,
    <<B("20150830"), <<195, 169>>, B("service"), B("aws4_request")>>,
    <<B("20150830"), B("us-east-1"), B("servic"), B("aws4_request")>>,
    <<B("20150830"), B("us-east-1"), B("services"), B("aws4_request")>>,
    <<B("20150830"), B("us-east-1"), B("Service"), B("aws4_request")>>,
    <<B("20150830"), B("us-east-1"), <<>>, B("aws4_request")>>,
    <<B("20150830"), B("service"), B("us-east-1"), B("aws4_request")>>,
    <<B("20150830"), B("us-east-1"), B("service"), B("aws4_reques")>>,
    <<B("20150830"), B("us-east-1"), B("service"), B("AWS4_REQUEST")>>,
    <<B("20150830"), B("us-east-1"), B("service"), B("aws5_request")>>,
    <<B("20150830"), B("us-east-1"), B("service"), <<>> >>,
    <<B("20150829"), B("us-east-1"), B("service"), B("aws4_request")>>,
    <<B("20150831"), B("us-east-1"), B("service"), B("aws4_request")>>,
    <<B("2015083"), B("us-east-1"), B("service"), B("aws4_request")>>,
    <<B("201508300"), B("us-east-1"), B("service"), B("aws4_request")>>,
    <<B("2015-08-30"), B("us-east-1"), B("service"), B("aws4_request")>>,
    <<B("2015 0830"), B("us-east-1"), B("service"), B("aws4_request")>>,
    <<B("2015830"), B("us-east-1"), B("service"), B("aws4_request")>>,
    <<B(" 20150830"), B("us-east-1"), B("service"), B("aws4_request")>>,
    <<B("2015 8 30"), B("us-east-1"), B("service"), B("aws4_request")>>,
    <<B("+20150830"), B("us-east-1"), B("service"), B("aws4_request")>>,
    <<B("20150830T"), B("us-east-1"), B("service"), B("aws4_request")>>,
    <<B("2015083O"), B("us-east-1"), B("service"), B("aws4_request")>>,
    << <<>>, B("us-east-1"), B("service"), B("aws4_request")>>,
    <<B("20150830"), B("us"), B("us-east"), B("aws4_request")>>,
    <<B("20150830"), <<195, 169>>, B("s3"), B("aws4_request")>>,
    \* decorated region names are other regions; escapes in a credential are not decoded on the header carrier
    <<B("20150830"), B("us-east-1-fips"), B("service"), B("aws4_request")>>,
    <<B("20150830"), B("fips-us-east-1"), B("service"), B("aws4_request")>>,
    <<B("20150830"), B("us%2Deast%2D1"), B("service"), B("aws4_request")>>,
    <<B("20150830"), B("us-east-1"), B("service"), B("aws4%5Frequest")>>,
    <<B("20150830%2Fus-east-1%2Fservice%2Faws4_request")>>,
    <<B("20150830"), B("us-east-1"), B("service%2Faws4_request")>> >>
ScopeCfgs == << <<B("us-east-1"), B("service")>>, <<B("us"), B("us-east")>>, << <<195, 169>>, B("s3")>>,
               <<B("us-east-1-fips"), B("service")>>, <<B("fips-us-east-1"), B("service")>> >>
\* timestamps near midnight UTC and offsets that move the UTC date: <<timestamp, now, credential date>>
MidnightCases == <<
    <<B("20150830T235959Z"), Inst(2015, 8, 30, 23, 59, 59, 0), B("20150830")>>,
    <<B("20150831T000000Z"), Inst(2015, 8, 30, 23, 59, 59, 0), B("20150831")>>,
    <<B("20150831T000000Z"), Inst(2015, 8, 30, 23, 59, 59, 0), B("20150830")>>,
    <<B("20150831T003000+0200"), Inst(2015, 8, 30, 22, 30, 0, 0), B("20150830")>>,
    <<B("20150831T003000+0200"), Inst(2015, 8, 30, 22, 30, 0, 0), B("20150831")>>,
    <<B("20150830T223000-0300"), Inst(2015, 8, 31, 1, 30, 0, 0), B("20150831")>>,
    <<B("20150830T223000-0300"), Inst(2015, 8, 31, 1, 30, 0, 0), B("20150830")>>,
    <<B("20160229T235959Z"), Inst(2016, 3, 1, 0, 0, 0, 0), B("20160229")>>,
    <<B("20160301T000000Z"), Inst(2016, 2, 29, 23, 59, 59, 0), B("20160301")>>,
    <<B("20151231T235959Z"), Inst(2016, 1, 1, 0, 5, 0, 0), B("20151231")>>,
    <<B("20160101T000000+0000"), Inst(2015, 12, 31, 23, 55, 0, 0), B("20160101")>>,
    \* the last second of a day with a fraction: still that day
    <<B("20150830T235959.600Z"), Inst(2015, 8, 30, 23, 59, 59, 0), B("20150830")>>,
    <<B("20150830T235959.600Z"), Inst(2015, 8, 30, 23, 59, 59, 0), B("20150831")>>,
    <<B("20150830T235959,999999999Z"), Inst(2015, 8, 31, 0, 0, 0, 0), B("20150830")>>,
    <<B("20151231T235959.9999999999Z"), Inst(2016, 1, 1, 0, 0, 1, 0), B("20151231")>> >>

\* ---------------------------------------------------------------- C04 material
WindowNows == << Inst(2015, 8, 30, 12, 36, 0, 0), Inst(2016, 2, 29, 0, 0, 0, 0), Inst(2015, 12, 31, 23, 59, 59, 0),
                 Inst(2016, 1, 1, 0, 7, 0, 0), Inst(2100, 3, 1, 0, 0, 0, 0), Inst(2015, 8, 30, 12, 36, 0, 500000000) >>
AddNano(i, n) ==
    LET t == i[3] + n IN
    IF t < 0 THEN LET j == AddSec(i, -1) IN <<j[1], j[2], t + 1000000000>>
    ELSE IF t >= 1000000000 THEN LET j == AddSec(i, 1) IN <<j[1], j[2], t - 1000000000>>
    ELSE <<i[1], i[2], t>>
LeakCfgs == << <<B("us-east-1"), B("s3")>>, <<B("us-east-1"), B("S3")>>, <<B("us-east-1"), B("sts")>>, <<B("aws-global"), B("iam")>>,
              <<B("us-gov-west-1"), B("execute-api")>>, <<B("cn-north-1"), B("s3-object-lambda")>>, <<B("local"), B("test")>>,
              <<B("us-east-1"), B("dynamodb")>> >>
FoldMethods == <<B("POST"), B("PUT"), B("PATCH"), B("DELETE"), B("GET"), B("post"), B("OPTIONS")>>
ManyCounts == <<18, 19, 21, 23, 25, 27, 29, 31, 33, 40, 64, 100>>
ExpiresValues == << B("1"), B("60"), B("900"), B("3600"), B("86400"), B("604800"), B("0"), B("-1"), B("abc") >>
ExpiresAges == << -1200, -901, -900, -899, -300, -61, -59, 0, 59, 899, 900, 901 >>
FracNows == << Inst(2015, 8, 30, 12, 36, 0, 900000000), Inst(2015, 8, 30, 12, 36, 0, 500000000), Inst(2015, 8, 30, 12, 36, 0, 1),
               Inst(2015, 8, 30, 23, 59, 59, 999999999) >>
\* whole-second offsets; Bound = 0: +-(880..920); Bound = 1: every second of [-1200, 1200]
NumOffsets == IF Bound = 0 THEN 82 ELSE 2401
OffsetOf(k) == IF Bound = 0 THEN (IF k <= 41 THEN -(879 + k) ELSE 879 + (k - 41)) ELSE k - 1201
\* sub-second probes around both bounds: <<seconds, nanoseconds>>
SubSecond == << <<-900, -1>>, <<-900, 1>>, <<900, -1>>, <<900, 1>>, <<-900, -500000000>>, <<-900, 500000000>>,
                <<900, -500000000>>, <<900, 500000000>>, <<0, 1>>, <<0, -1>> >>
Frac9(n) == <<46>> \o Dec(n, 9)
RenderTs(inst, style) ==
    LET off == CASE style = 3 -> 19800 [] style = 4 -> -9900 [] style = 6 -> 1800 [] style = 7 -> -2700 [] OTHER -> 0
        loc == AddSec(inst, off)
        f   == Fields(loc)
        ext == style \in {2, 3, 6}
        \* style 8: a tenth fraction digit (9): digits beyond the ninth are dropped, never rounded
        frac == IF style = 8 THEN Frac9(inst[3]) \o <<57>> ELSE IF inst[3] # 0 \/ style = 5 THEN Frac9(inst[3]) ELSE <<>>
        zone == CASE style = 3 -> B("+05:30") [] style = 4 -> B("-0245") [] style = 6 -> B("+00:30")
                  [] style = 7 -> B("-0045") [] OTHER -> B("Z")
    IN Dec(f[1], 4) \o (IF ext THEN <<45>> ELSE <<>>) \o Dec(f[2], 2) \o (IF ext THEN <<45>> ELSE <<>>) \o Dec(f[3], 2)
       \o <<84>> \o Dec(f[4], 2) \o (IF ext THEN <<58>> ELSE <<>>) \o Dec(f[5], 2) \o (IF ext THEN <<58>> ELSE <<>>)
       \o Dec(f[6], 2) \o frac \o zone

\* ---------------------------------------------------------------- C05 material
ReqAlways == <<B("content-type"), B("x-req")>>
ReqIfIn   == <<B("etag"), B("x-opt")>>
ReqPrefix == <<B("x-amz"), B("x-a")>>
Styled(n, style) == CASE style = 1 -> n [] style = 2 -> UpperSeq(n)
                      [] style = 3 -> [i \in 1..Len(n) |-> IF i % 2 = 1 THEN UpperC(n[i]) ELSE n[i]]
SubsetOf(names, mask) == SelectSeq([i \in 1..Len(names) |-> IF (mask \div (2 ^ (i - 1))) % 2 = 1 THEN names[i] ELSE <<>>],
                                   LAMBDA x : x # <<>>)
StyledSubset(names, mask, style) == [i \in 1..Len(SubsetOf(names, mask)) |-> Styled(SubsetOf(names, mask)[i], style)]
ReqHdrSets == <<
    << <<B("Content-Type"), B("text/plain")>>, <<B("ETag"), B("e1")>>, <<B("X-Amz-Meta"), B("m")>>, <<B("X-Abc"), B("a")>>,
       <<B("X-Amzn-Trace-Id"), B("Root=1-5759e988-bd862e3fe1be46a994272793")>> >>,
    << <<B("X-Req"), B("r")>>, <<B("X-Opt"), B("o")>>, <<B("X-Amz-Target"), B("t")>>, <<B("x-amz-meta"), B("m")>>,
       <<B("X-Amzn-Trace-Id"), B("Root=1-5759e988-bd862e3fe1be46a994272793")>> >>,
    << >>,
    << <<B("Content-Type"), B("a/b")>>, <<B("X-Req"), B("r")>>, <<B("ETag"), B("e")>>, <<B("X-Opt"), B("o")>>,
       <<B("X-Amz-A"), B("1")>>, <<B("X-A1"), B("2")>> >> >>
ReqImpls == <<"slice", "vec", "vecadd">>

\* ---------------------------------------------------------------- C12 material
FoldComps == << B("a=1"), B("a=2"), B("a="), B("b=1"), B("b=2"), B("b=") >>
\* list number 1..43: 1 = empty, 2..7 one component, 8..43 two components
FoldList(n) == IF n = 1 THEN <<>> ELSE IF n <= 7 THEN FoldComps[n - 1]
               ELSE FoldComps[((n - 8) \div 6) + 1] \o <<AMP>> \o FoldComps[((n - 8) % 6) + 1]
ContentTypes == << B("application/x-www-form-urlencoded"),
                   B("application/x-www-form-urlencoded; charset=utf-8"),
                   B("application/x-www-form-urlencoded;charset=UTF8"),
                   B("application/x-www-form-urlencoded ; charset=unicode-1-1-utf-8"),
                   B("application/x-www-form-urlencoded; charset=foobar"),
                   B("application/x-www-form-urlencoded; hello=world; charset=utf-8"),
                   B("text/plain"), B("application/json"), <<>>,
                   B("Application/X-WWW-Form-Urlencoded"),
                   B("application/x-www-form-urlencoded; charset=latin1"),
                   B("application/x-www-form-urlencoded; charset="),
                   B("multipart/form-data; boundary=x"),
                   \* not a form: the charset parameter is nobody's business, known or not
                   B("text/plain; charset=klingon"), B("application/json; charset=utf8mb4"),
                   B("application/x-www-form-urlencoded-v2; charset=foobar") >>

\* ---------------------------------------------------------------- C19: repeated authentication inputs
TsA == B("20150830T123600Z")
TsB == B("20150830T123000Z")
CredOf(akid) == Join(<<akid>> \o DefaultL.scope, <<SLASH>>)
AuthFor(akid, sig) == bAlgorithm \o B(" Credential=") \o CredOf(akid) \o B(", SignedHeaders=host;x-amz-date, Signature=") \o sig
HdrB == Bundle0("hdr")
QryB == Bundle0("qry")
WithPost(b, post, over) == [b EXCEPT !.post = post, !.over = over]
NoOver == [dup |-> TRUE]          \* duplicates are part of what was signed; nothing to choose
QPre == B("/?X-Amz-Algorithm=AWS4-HMAC-SHA256&X-Amz-Credential=") \o Enc(CredOf(B("AKIDEXAMPLE")))
QUri(v) == [k |-> "uri", v |-> v]
\* header positions in the default header-carrier wire: 1 host, 2 x-amz-date, 3 authorization
DupCases == <<
    \* two Authorization headers: the first one counts
    WithPost(HdrB, << [k |-> "hdrins", at |-> 4, name |-> B("Authorization"), v |-> B("Basic dXNlcjpwYXNz")] >>, NoOver),
    WithPost(HdrB, << [k |-> "hdrins", at |-> 3, name |-> B("Authorization"), v |-> B("Basic dXNlcjpwYXNz")] >>, NoOver),
    WithPost(HdrB, << [k |-> "hdrins", at |-> 4, name |-> B("Authorization"), v |-> AuthFor(B("OTHERKEY"), B("00"))] >>, NoOver),
    WithPost(HdrB, << [k |-> "hdrins", at |-> 3, name |-> B("Authorization"), v |-> AuthFor(B("OTHERKEY"), B("00"))] >>, NoOver),
    \* repeated parameters inside the header: the last one counts
    WithPost(HdrB, << [k |-> "hdrset", h |-> 3, v |-> bAlgorithm \o B(" Credential=") \o CredOf(B("WRONG")) \o B(", Credential=") \o CredOf(B("AKIDEXAMPLE"))
                                                    \o B(", SignedHeaders=host;x-amz-date, Signature=") \o bSIG] >>, NoOver),
    WithPost(HdrB, << [k |-> "hdrset", h |-> 3, v |-> bAlgorithm \o B(" Credential=") \o CredOf(B("AKIDEXAMPLE")) \o B(", Credential=") \o CredOf(B("WRONG"))
                                                    \o B(", SignedHeaders=host;x-amz-date, Signature=") \o bSIG] >>,
             [cred |-> CredOf(B("AKIDEXAMPLE"))]),
    WithPost(HdrB, << [k |-> "hdrset", h |-> 3, v |-> bAlgorithm \o B(" Credential=") \o CredOf(B("AKIDEXAMPLE"))
                                                    \o B(", SignedHeaders=host;x-amz-date, Signature=00, Signature=") \o bSIG] >>, NoOver),
    WithPost(HdrB, << [k |-> "hdrset", h |-> 3, v |-> bAlgorithm \o B(" Credential=") \o CredOf(B("AKIDEXAMPLE"))
                                                    \o B(", SignedHeaders=host;x-amz-date, Signature=") \o bSIG \o B(", Signature=00")] >>, NoOver),
    WithPost(HdrB, << [k |-> "hdrset", h |-> 3, v |-> bAlgorithm \o B(" Credential=") \o CredOf(B("AKIDEXAMPLE"))
                                                    \o B(", SignedHeaders=host, SignedHeaders=host;x-amz-date, Signature=") \o bSIG] >>,
             [signed |-> <<B("host"), B("x-amz-date")>>]),
    WithPost(HdrB, << [k |-> "hdrset", h |-> 3, v |-> bAlgorithm \o B(" Credential=") \o CredOf(B("AKIDEXAMPLE"))
                                                    \o B(", SignedHeaders=host;x-amz-date, SignedHeaders=host, Signature=") \o bSIG] >>,
             [signed |-> <<B("host"), B("x-amz-date")>>]),
    \* a parameter name with blanks before '=' is another name: it never replaces the real one
    WithPost(HdrB, << [k |-> "hdrset", h |-> 3, v |-> bAlgorithm \o B(" Credential=") \o CredOf(B("AKIDEXAMPLE"))
                                                    \o B(", SignedHeaders=host;x-amz-date, Signature=") \o bSIG \o B(", Signature =00")] >>, NoOver),
    WithPost(HdrB, << [k |-> "hdrset", h |-> 3, v |-> bAlgorithm \o B(" Signature =00, Credential =") \o CredOf(B("WRONG")) \o B(", Credential=") \o CredOf(B("AKIDEXAMPLE"))
                                                    \o B(", SignedHeaders =host, SignedHeaders=host;x-amz-date, Signature=") \o bSIG] >>, NoOver),
    \* two X-Amz-Date headers: the first one counts (both are in the signed block)
    WithPost(HdrB, << [k |-> "hdrins", at |-> 3, name |-> B("X-Amz-Date"), v |-> TsB] >>, [ts |-> TsA]),
    WithPost(HdrB, << [k |-> "hdrins", at |-> 2, name |-> B("X-Amz-Date"), v |-> TsB] >>, [ts |-> TsA]),
    \* Date and X-Amz-Date together: X-Amz-Date counts, in either arrival order
    WithPost(HdrB, << [k |-> "hdrins", at |-> 2, name |-> B("Date"), v |-> TsB] >>, [ts |-> TsA]),
    WithPost(HdrB, << [k |-> "hdrins", at |-> 3, name |-> B("Date"), v |-> TsB] >>, [ts |-> TsA]),
    WithPost(HdrB, << [k |-> "hdrins", at |-> 2, name |-> B("Date"), v |-> TsB] >>, [ts |-> TsB]),
    WithPost(HdrB, << [k |-> "hdrins", at |-> 3, name |-> B("Date"), v |-> TsB] >>, [ts |-> TsB]),
    \* ... also when the Date header is listed in SignedHeaders
    WithPost([HdrB EXCEPT !.L.signed = <<B("date"), B("host"), B("x-amz-date")>>],
             << [k |-> "hdrins", at |-> 2, name |-> B("Date"), v |-> TsB] >>, [ts |-> TsA]),
    WithPost([HdrB EXCEPT !.L.signed = <<B("date"), B("host"), B("x-amz-date")>>],
             << [k |-> "hdrins", at |-> 3, name |-> B("Date"), v |-> TsB] >>, [ts |-> TsA]),
    WithPost([HdrB EXCEPT !.L.signed = <<B("date"), B("host"), B("x-amz-date")>>],
             << [k |-> "hdrins", at |-> 2, name |-> B("Date"), v |-> TsB] >>, [ts |-> TsB]),
    \* a folded form body that repeats X-Amz-* parameters of a presigned URL: the URL's (first) values count
    WithPost([QryB EXCEPT !.cfg.fold = TRUE, !.L.method = B("POST"), !.L.hdrs = @ \o <<FormHdr>>,
                          !.L.body = B("X-Amz-Credential=") \o Enc(CredOf(B("WRONG"))) \o B("&X-Amz-Date=20150830T123000Z&a=1")], <<>>, NoOver),
    WithPost([QryB EXCEPT !.cfg.fold = TRUE, !.L.method = B("POST"), !.L.hdrs = @ \o <<FormHdr>>,
                          !.L.body = B("X-Amz-Security-Token=tokenBODY&X-Amz-SignedHeaders=host%3Bx-none&X-Amz-Signature=00")], <<>>, NoOver),
    WithPost([QryB EXCEPT !.cfg.fold = TRUE, !.L.method = B("POST"), !.L.hdrs = @ \o <<FormHdr>>, !.L.hasToken = TRUE, !.L.token = B("tokenURL"),
                          !.L.body = B("X-Amz-Security-Token=tokenBODY")], <<>>, NoOver),
    \* Date listed in SignedHeaders, X-Amz-Date present but not listed: X-Amz-Date still is the request time
    WithPost([HdrB EXCEPT !.L.signed = <<B("date"), B("host")>>],
             << [k |-> "hdrins", at |-> 2, name |-> B("Date"), v |-> TsB] >>, [ts |-> TsA]),
    WithPost([HdrB EXCEPT !.L.signed = <<B("date"), B("host")>>],
             << [k |-> "hdrins", at |-> 3, name |-> B("Date"), v |-> TsB] >>, [ts |-> TsA]),
    WithPost([HdrB EXCEPT !.L.signed = <<B("date"), B("host")>>, !.L.ts = B("20150830T113600Z")],
             << [k |-> "hdrins", at |-> 2, name |-> B("Date"), v |-> TsA] >>, [ts |-> B("20150830T113600Z")]),
    WithPost([HdrB EXCEPT !.L.signed = <<B("date"), B("host")>>],
             << [k |-> "hdrins", at |-> 2, name |-> B("Date"), v |-> B("20150830T113600Z")] >>, [ts |-> TsA]),
    \* a long parameter list (unknown parameters are legal) with Credential / Signature repeated at both ends: the last counts
    WithPost(HdrB, << [k |-> "hdrset", h |-> 3, v |-> bAlgorithm \o B(" Credential=") \o CredOf(B("WRONG")) \o B(", Signature=00, ")
                                                    \o Join([i \in 1..29 |-> B("x") \o Dec(i, 2) \o B("=") \o Dec(i, 1)], B(", "))
                                                    \o B(", SignedHeaders=host;x-amz-date, Credential=") \o CredOf(B("AKIDEXAMPLE"))
                                                    \o B(", Signature=") \o bSIG] >>, NoOver),
    WithPost(HdrB, << [k |-> "hdrset", h |-> 3, v |-> bAlgorithm \o B(" Credential=") \o CredOf(B("AKIDEXAMPLE")) \o B(", Signature=") \o bSIG \o B(", ")
                                                    \o Join([i \in 1..29 |-> B("x") \o Dec(i, 2) \o B("=") \o Dec(i, 1)], B(", "))
                                                    \o B(", SignedHeaders=host;x-amz-date, Credential=") \o CredOf(B("WRONG"))
                                                    \o B(", Signature=00")] >>, [cred |-> CredOf(B("AKIDEXAMPLE"))]),
    \* an X-Amz-Signature query parameter on a header-carrier request (alone, and next to others)
    WithPost([HdrB EXCEPT !.L.query = B("X-Amz-Signature=00")], <<>>, NoOver),
    WithPost([HdrB EXCEPT !.L.query = B("a=1&X-Amz-Signature=00&X-Amz-Signature=11")], <<>>, NoOver),
    \* a presigned URL that also carries an Authorization header of another scheme: both carriers, refused
    WithPost(QryB, << [k |-> "hdrins", at |-> 2, name |-> B("Authorization"), v |-> B("Basic dXNlcjpwYXNz")] >>, NoOver),
    WithPost(QryB, << [k |-> "hdrins", at |-> 2, name |-> B("Authorization"), v |-> B("Bearer abc.def")] >>, NoOver),
    WithPost([QryB EXCEPT !.L.ts = B("20150830T110000Z")], << [k |-> "hdrins", at |-> 2, name |-> B("Authorization"), v |-> B("Basic dXNlcjpwYXNz")] >>, NoOver),
    \* HTTP/2 style: no Host header, the authority travels in the target; "host" is listed but there is no such header
    WithPost([HdrB EXCEPT !.L.hdrs = <<>>, !.L.version = "HTTP/2.0"], << [k |-> "uripre", v |-> B("https://example.amazonaws.com")] >>, NoOver),
    WithPost([QryB EXCEPT !.L.hdrs = <<>>, !.L.version = "HTTP/2.0"], << [k |-> "uripre", v |-> B("https://example.amazonaws.com")] >>, NoOver),
    \* only a Date header
    WithPost([HdrB EXCEPT !.L.dateHeader = B("Date"), !.L.signed = <<B("date"), B("host")>>], <<>>, NoOver),
    \* two security-token headers: the first one is handed to the provider
    WithPost([HdrB EXCEPT !.L.hasToken = TRUE, !.L.token = B("tokenONE"), !.L.signed = <<B("host"), B("x-amz-date"), B("x-amz-security-token")>>],
             << [k |-> "hdrins", at |-> 4, name |-> B("X-Amz-Security-Token"), v |-> B("tokenTWO")] >>, NoOver),
    WithPost([HdrB EXCEPT !.L.hasToken = TRUE, !.L.token = B("tokenONE"), !.L.signed = <<B("host"), B("x-amz-date"), B("x-amz-security-token")>>],
             << [k |-> "hdrins", at |-> 3, name |-> B("X-Amz-Security-Token"), v |-> B("tokenTWO")] >>, NoOver),
    \* header carrier: the session token is the header's; an X-Amz-Security-Token query parameter is an ordinary parameter
    WithPost([HdrB EXCEPT !.L.hasToken = TRUE, !.L.token = B("tokenONE"), !.L.query = B("X-Amz-Security-Token=tokenTWO"),
                          !.L.signed = <<B("host"), B("x-amz-date"), B("x-amz-security-token")>>], <<>>, NoOver),
    WithPost([HdrB EXCEPT !.cfg.fold = TRUE, !.L.method = B("POST"), !.L.hasToken = TRUE, !.L.token = B("tokenONE"),
                          !.L.hdrs = @ \o <<FormHdr>>, !.L.body = B("X-Amz-Security-Token=tokenBODY"),
                          !.L.signed = <<B("content-type"), B("host"), B("x-amz-date"), B("x-amz-security-token")>>], <<>>, NoOver),
    \* both carriers at once
    WithPost([HdrB EXCEPT !.L.both = TRUE], <<>>, NoOver),
    WithPost([QryB EXCEPT !.L.both = TRUE], <<>>, NoOver),
    WithPost([HdrB EXCEPT !.L.query = B("X-Amz-Algorithm=AWS4-HMAC-SHA1")], <<>>, NoOver),
    WithPost([HdrB EXCEPT !.L.query = B("X-Amz-Algorithm=")], <<>>, NoOver),
    WithPost([HdrB EXCEPT !.L.query = B("X-Amz-Algorithm")], <<>>, NoOver),
    WithPost([HdrB EXCEPT !.L.query = B("X-Amz-Algorithm=aws4-hmac-sha256")], <<>>, NoOver),
    WithPost([HdrB EXCEPT !.L.query = B("X-Amz-Algorithm=AWS4-HMAC-SHA1&X-Amz-Algorithm=AWS4-HMAC-SHA256")], <<>>, NoOver),
    WithPost([HdrB EXCEPT !.L.query = B("X%2DAmz%2DAlgorithm=other")], <<>>, NoOver),
    WithPost([HdrB EXCEPT !.L.query = B("x-amz-algorithm=AWS4-HMAC-SHA256")], <<>>, NoOver),
    \* repeated X-Amz-* query parameters: the first one counts
    WithPost(QryB, << QUri(B("/?X-Amz-Algorithm=AWS4-HMAC-SHA256&X-Amz-Algorithm=AWS4-HMAC-SHA512&X-Amz-Credential=") \o Enc(CredOf(B("AKIDEXAMPLE")))
                          \o B("&X-Amz-Date=20150830T123600Z&X-Amz-SignedHeaders=host&X-Amz-Signature=") \o bSIG) >>, NoOver),
    WithPost(QryB, << QUri(B("/?X-Amz-Algorithm=AWS4-HMAC-SHA512&X-Amz-Algorithm=AWS4-HMAC-SHA256&X-Amz-Credential=") \o Enc(CredOf(B("AKIDEXAMPLE")))
                          \o B("&X-Amz-Date=20150830T123600Z&X-Amz-SignedHeaders=host&X-Amz-Signature=") \o bSIG) >>, NoOver),
    WithPost(QryB, << QUri(QPre \o B("&X-Amz-Credential=") \o Enc(CredOf(B("WRONG")))
                          \o B("&X-Amz-Date=20150830T123600Z&X-Amz-SignedHeaders=host&X-Amz-Signature=") \o bSIG) >>, NoOver),
    WithPost(QryB, << QUri(B("/?X-Amz-Algorithm=AWS4-HMAC-SHA256&X-Amz-Credential=") \o Enc(CredOf(B("WRONG")))
                          \o B("&X-Amz-Credential=") \o Enc(CredOf(B("AKIDEXAMPLE")))
                          \o B("&X-Amz-Date=20150830T123600Z&X-Amz-SignedHeaders=host&X-Amz-Signature=") \o bSIG) >>,
             [cred |-> CredOf(B("AKIDEXAMPLE"))]),
    WithPost(QryB, << QUri(QPre \o B("&X-Amz-Date=20150830T123600Z&X-Amz-Date=20150830T123000Z&X-Amz-SignedHeaders=host&X-Amz-Signature=") \o bSIG) >>, NoOver),
    WithPost(QryB, << QUri(QPre \o B("&X-Amz-Date=20150830T123000Z&X-Amz-Date=20150830T123600Z&X-Amz-SignedHeaders=host&X-Amz-Signature=") \o bSIG) >>,
             [ts |-> TsA]),
    WithPost(QryB, << QUri(QPre \o B("&X-Amz-Date=20150830T123600Z&X-Amz-SignedHeaders=host&X-Amz-SignedHeaders=host%3Bx-none&X-Amz-Signature=") \o bSIG) >>, NoOver),
    WithPost(QryB, << QUri(QPre \o B("&X-Amz-Date=20150830T123600Z&X-Amz-SignedHeaders=host%3Bx-none&X-Amz-SignedHeaders=host&X-Amz-Signature=") \o bSIG) >>,
             [signed |-> <<B("host")>>]),
    WithPost(QryB, << QUri(QPre \o B("&X-Amz-Date=20150830T123600Z&X-Amz-SignedHeaders=host&X-Amz-Signature=") \o bSIG \o B("&X-Amz-Signature=00")) >>, NoOver),
    WithPost(QryB, << QUri(QPre \o B("&X-Amz-Date=20150830T123600Z&X-Amz-SignedHeaders=host&X-Amz-Signature=00&X-Amz-Signature=") \o bSIG) >>, NoOver),
    WithPost(QryB, << QUri(QPre \o B("&X-Amz-Date=20150830T123600Z&X-Amz-Security-Token=tokenONE&X-Amz-Security-Token=tokenTWO&X-Amz-SignedHeaders=host&X-Amz-Signature=") \o bSIG) >>, NoOver),
    \* an X-Amz-Date header on a query-carrier request is not consulted
    WithPost(QryB, << [k |-> "hdrins", at |-> 2, name |-> B("X-Amz-Date"), v |-> TsB] >>, NoOver),
    \* ... a stale presigned URL is not refreshed by a fresh date header, a fresh one is not spoiled by a stale header
    WithPost([QryB EXCEPT !.L.ts = B("20150830T120000Z")], << [k |-> "hdrins", at |-> 2, name |-> B("X-Amz-Date"), v |-> TsA] >>, NoOver),
    WithPost([QryB EXCEPT !.L.ts = B("20150830T120000Z")], << [k |-> "hdrins", at |-> 2, name |-> B("Date"), v |-> TsA] >>, NoOver),
    WithPost(QryB, << [k |-> "hdrins", at |-> 2, name |-> B("X-Amz-Date"), v |-> B("20150830T120000Z")] >>, NoOver),
    WithPost(QryB, << [k |-> "hdrins", at |-> 2, name |-> B("Date"), v |-> B("20150829T120000Z")] >>, NoOver),
    \* a repeated X-Amz-* parameter whose name is spelled with an escape is still the same parameter: the first counts
    WithPost(QryB, << QUri(QPre \o B("&X%2DAmz-Credential=") \o Enc(CredOf(B("WRONG")))
                          \o B("&X-Amz-Date=20150830T123600Z&X-Amz-SignedHeaders=host&X-Amz-Signature=") \o bSIG) >>, NoOver),
    WithPost(QryB, << QUri(B("/?X-Amz-Algorithm=AWS4-HMAC-SHA256&X%2dAmz%2dCredential=") \o Enc(CredOf(B("AKIDEXAMPLE")))
                          \o B("&X-Amz-Credential=") \o Enc(CredOf(B("WRONG")))
                          \o B("&X-Amz-Date=20150830T123600Z&X-Amz-SignedHeaders=host&X-Amz-Signature=") \o bSIG) >>, NoOver),
    WithPost(QryB, << QUri(QPre \o B("&X-Amz-Date=20150830T123600Z&X-Amz%2DDate=20150830T110000Z&X-Amz-SignedHeaders=host&X-Amz-Signature=") \o bSIG
                          \o B("&X-Amz-Signatur%65=00")) >>, NoOver),
    \* a folded form body whose X-Amz-Credential names another scope than the URL's: the URL's counts
    WithPost([QryB EXCEPT !.cfg.fold = TRUE, !.L.method = B("POST"), !.L.hdrs = @ \o <<FormHdr>>,
                          !.L.scope = [@ EXCEPT ![2] = B("eu-west-1")],
                          !.L.body = B("X-Amz-Credential=") \o Enc(CredOf(B("AKIDEXAMPLE")))], <<>>, NoOver),
    WithPost([QryB EXCEPT !.cfg.fold = TRUE, !.L.method = B("POST"), !.L.hdrs = @ \o <<FormHdr>>,
                          !.L.body = B("X-Amz-Credential=") \o Enc(B("AKIDEXAMPLE/20150830/eu-west-1/service/aws4_request"))], <<>>, NoOver),
    \* two Content-Type headers with folding enabled: the first one decides whether the body is a form
    WithPost([HdrB EXCEPT !.cfg.fold = TRUE, !.L.method = B("POST"), !.L.body = B("a=1"),
                          !.L.hdrs = @ \o << FormHdr, <<B("Content-Type"), B("text/plain")>> >>,
                          !.L.signed = <<B("content-type"), B("host"), B("x-amz-date")>>], <<>>, NoOver),
    WithPost([HdrB EXCEPT !.cfg.fold = TRUE, !.L.method = B("POST"), !.L.body = B("a=1"),
                          !.L.hdrs = @ \o << <<B("Content-Type"), B("text/plain")>>, FormHdr >>,
                          !.L.signed = <<B("content-type"), B("host"), B("x-amz-date")>>], <<>>, NoOver),
    WithPost([QryB EXCEPT !.cfg.fold = TRUE, !.L.method = B("POST"), !.L.body = B("a=1"),
                          !.L.hdrs = @ \o << <<B("Content-Type"), B("application/x-www-form-urlencoded; charset=klingon")>>, FormHdr >>], <<>>, NoOver),
    \* ... and on the header carrier an X-Amz-Date query parameter is an ordinary (signed) parameter
    WithPost([HdrB EXCEPT !.L.query = B("X-Amz-Date=20150830T120000Z")], <<>>, NoOver),
    WithPost([HdrB EXCEPT !.L.ts = B("20150830T120000Z"), !.L.query = B("X-Amz-Date=20150830T123600Z")], <<>>, NoOver)
    >>

\* ---------------------------------------------------------------- C08 material
CharsetLabels == SetToSeq(Utf8Labels) \o SetToSeq(OtherKnownLabels)
                 \o << B("foobar"), B("utf-9"), <<>>, B(" UTF-8 "), B("\"utf-8\""), B("utf-8;"), B("x-unknown"), B("\""), B("\"\""), B("'") >>
CharsetBodies == << <<>>, B("a=1&b=%20"), <<97, 61, 255>>,
                    <<0, 216, 97, 0>>,                       \* UTF-16LE: lone high surrogate; UTF-16BE: two ordinary units
                    <<97, 0, 61, 0, 49, 0>>,                 \* "a=1" in UTF-16LE
                    <<97>>, <<254, 255, 0, 97>>,
                    B("a=1&bb=2") >>                         \* 8 ASCII bytes: decodable as UTF-16 (to something else)
AuthSet(v) == [k |-> "hdrset", h |-> 3, v |-> v]
LongA(n) == [i \in 1..n |-> 97]
Degenerate == <<
    << [k |-> "uri", v |-> B("*")], [k |-> "method", v |-> B("OPTIONS")] >>,
    << [k |-> "uri", v |-> B("example.com:443")], [k |-> "method", v |-> B("CONNECT")] >>,
    << [k |-> "uri", v |-> B("http://example.com/a%20b?b=1")] >>,
    << [k |-> "uri", v |-> B("http://example.com")] >>,
    << [k |-> "uri", v |-> B("/?")] >>, << [k |-> "uri", v |-> B("/??")] >>, << [k |-> "uri", v |-> B("/%")] >>,
    << [k |-> "uri", v |-> B("/a%")] >>, << [k |-> "uri", v |-> B("/?%")] >>, << [k |-> "uri", v |-> B("/?a=%")] >>,
    << [k |-> "uri", v |-> B("//")] >>, << [k |-> "uri", v |-> B("/./")] >>, << [k |-> "uri", v |-> B("/..")] >>,
    << [k |-> "uri", v |-> B("/?=")] >>, << [k |-> "uri", v |-> B("/?&")] >>, << [k |-> "uri", v |-> B("/?=&=&")] >>,
    << [k |-> "uri", v |-> B("/") \o LongA(700)] >>,
    << [k |-> "uri", v |-> B("/?") \o LongA(700) \o B("=") \o LongA(700)] >>,
    << AuthSet(<<>>) >>, << AuthSet(B("  ")) >>, << AuthSet(B("AWS4-HMAC-SHA256")) >>, << AuthSet(B("AWS4-HMAC-SHA256 ")) >>,
    << AuthSet(B("AWS4-HMAC-SHA256 =")) >>, << AuthSet(B("AWS4-HMAC-SHA256 ,,,")) >>, << AuthSet(B("AWS4-HMAC-SHA256 Credential")) >>,
    << AuthSet(B("AWS4-HMAC-SHA256 Credential=")) >>, << AuthSet(B("AWS4-HMAC-SHA256 Credential=, SignedHeaders=, Signature=")) >>,
    << AuthSet(B("AWS4-HMAC-SHA256 Credential=/, SignedHeaders=;, Signature=")) >>,
    << AuthSet(B("AWS4-HMAC-SHA256 Credential=////, SignedHeaders=;;host;, Signature==")) >>,
    << AuthSet(B("AWS4-HMAC-SHA256") \o <<9>> \o B("Credential=a/b/c/d/e, SignedHeaders=host, Signature=0")) >>,
    << AuthSet(B("AWS4-HMAC-SHA256 Credential=") \o LongA(900) \o B("/20150830/us-east-1/service/aws4_request, SignedHeaders=host;x-amz-date, Signature=0")) >>,
    << AuthSet(B("AWS4-HMAC-SHA256 Credential=") \o <<233, 255, 128>> \o B("/20150830/us-east-1/service/aws4_request, SignedHeaders=host;x-amz-date, Signature=") \o <<255>>) >>,
    << AuthSet(B("AWS4-HMAC-SHA256 Credential=AKIDEXAMPLE/20150830/us-east-1/service/aws4_request, SignedHeaders=") \o <<233>> \o B(";host, Signature=0")) >>,
    << AuthSet(B("Basic dXNlcjpwYXNz")) >>, << AuthSet(B("AWS4-HMAC-SHA256Credential=x")) >>,
    << AuthSet(B("Bearer AWS4-HMAC-SHA256 Credential=AKIDEXAMPLE/20150830/us-east-1/service/aws4_request, SignedHeaders=host;x-amz-date, Signature=") \o bSIG) >>,
    << AuthSet(B("xAWS4-HMAC-SHA256 Credential=AKIDEXAMPLE/20150830/us-east-1/service/aws4_request, SignedHeaders=host;x-amz-date, Signature=") \o bSIG) >>,
    << AuthSet(B("AWS4-HMAC-SHA256x Credential=AKIDEXAMPLE/20150830/us-east-1/service/aws4_request, SignedHeaders=host;x-amz-date, Signature=") \o bSIG) >>,
    << [k |-> "hdrset", h |-> 2, v |-> <<>>] >>, << [k |-> "hdrset", h |-> 2, v |-> B("   ")] >>,
    << [k |-> "hdrset", h |-> 2, v |-> <<255, 254>>] >>,
    << [k |-> "hdrset", h |-> 1, v |-> <<>>] >>,
    << [k |-> "hdrdel", h |-> 1] >>,
    << [k |-> "hdrins", at |-> 1, name |-> B("Content-Type"), v |-> <<>>] >>,
    << [k |-> "hdrins", at |-> 1, name |-> B("Content-Type"), v |-> B(";;;=;charset")] >>,
    << [k |-> "hdrins", at |-> 1, name |-> B("Content-Type"), v |-> B("application/x-www-form-urlencoded;charset=;charset=utf-8")] >>,
    << [k |-> "body", v |-> LongA(3000)] >>,
    << [k |-> "hdrins", at |-> 1, name |-> B("Content-Type"), v |-> B("text/plain; charset=\"")] >>,
    << [k |-> "hdrins", at |-> 1, name |-> B("Content-Type"), v |-> B("application/x-www-form-urlencoded; charset=\"")] >>,
    << [k |-> "hdrins", at |-> 1, name |-> B("Content-Type"), v |-> B("application/x-www-form-urlencoded; charset=\"\"")] >>,
    << [k |-> "hdrins", at |-> 1, name |-> B("Content-Type"), v |-> B("application/x-www-form-urlencoded; charset=\"utf-8\"")] >>,
    << [k |-> "uri", v |-> B("example.com:443")], [k |-> "method", v |-> B("CONNECT")], [k |-> "body", v |-> B("a=1")],
       [k |-> "hdrins", at |-> 1, name |-> B("Content-Type"), v |-> B("application/x-www-form-urlencoded")] >>,
    << [k |-> "uri", v |-> B("*")], [k |-> "method", v |-> B("OPTIONS")], [k |-> "body", v |-> B("a=1")],
       [k |-> "hdrins", at |-> 1, name |-> B("Content-Type"), v |-> B("application/x-www-form-urlencoded")] >>,
    << [k |-> "uri", v |-> B("http://example.com/a?b=1")], [k |-> "method", v |-> B("POST")], [k |-> "body", v |-> B("a=1")],
       [k |-> "hdrins", at |-> 1, name |-> B("Content-Type"), v |-> B("application/x-www-form-urlencoded")] >>,
    << [k |-> "uri", v |-> B("http://example.com")], [k |-> "method", v |-> B("POST")], [k |-> "body", v |-> <<>>],
       [k |-> "hdrins", at |-> 1, name |-> B("Content-Type"), v |-> B("application/x-www-form-urlencoded")] >> >>

\* C07: positions at which the presented signature first differs from the expected one (-1 = control repeat of 0)
\* base requests of the timing family: 1 default, 2 rich, 3 path+query, 4 / 5 / 6: a request carrying a nonce that the
\* harness chooses so that the CORRECT signature has a particular shape (leading "0", leading "00", trailing "0") -
\* code that treats such signatures specially is then exercised
CtReqs == IF Bound = 0 THEN <<1, 4>> ELSE <<1, 2, 3, 4, 5, 6>>
CtNonce(r) == CASE r = 4 -> "lead0" [] r = 5 -> "lead00" [] r = 6 -> "trail0" [] OTHER -> ""
CtPositions == IF Bound = 0 THEN <<0, -1, 1, 2, 15, 31, 32, 47, 62, 63>>
               ELSE <<0, -1>> \o [k \in 1..63 |-> k]

\* ---------------------------------------------------------------- index tree
DefectBits == SubSeq(idx, 2, Min2(Len(idx), Len(DefectList) + 1))
DefectSet == {DefectList[k] : k \in {j \in 1..Len(DefectBits) : DefectBits[j] = 2}}
NumSet(k) == Cardinality({j \in 2..Min2(k, Len(idx)) : idx[j] = 2})

V(seq, k) == IF k <= Len(seq) THEN seq[k] ELSE 0

Dim(k) ==
    CASE Family \in {"defects", "leak_defects"} ->
            IF k = 1 THEN 2
            ELSE IF k <= Len(DefectList) + 1 THEN (IF NumSet(k - 1) >= Bound THEN 1 ELSE 2)
            ELSE IF k = Len(DefectList) + 2 THEN 3          \* witness
            ELSE 0
      [] Family = "scripts"  -> V(IF Bound = 1 THEN <<1, 3, 1, 3, 4, 6, 2>> ELSE <<3, 3, 3, 3, 4, 6, 2>>, k)
      [] Family = "leak_scripts" -> V(<<1, 3, 1, 3, 4, 2>>, k)
      [] Family \in {"sigmut", "leak_sigmut"} -> V(<<2, 76>>, k)
      [] Family = "base"     -> V(IF Bound = 0 THEN <<2, 2, 3, 3, 3, 2, 2, 2>> ELSE <<2, 4, 6, 6, 5, 3, 2, 2>>, k)
      [] Family = "mut_uri"  -> IF k = 1 THEN 2 ELSE IF k = 2 THEN NumMutBase
                                ELSE IF k = 3 THEN Len(MutW(CarrierOf(idx[1]), idx[2]).uri) ELSE 0
      [] Family = "mut_hdr"  -> IF k = 1 THEN 2 ELSE IF k = 2 THEN NumMutBase
                                ELSE IF k = 3 THEN Len(HdrPositions(MutW(CarrierOf(idx[1]), idx[2]))) ELSE 0
      [] Family = "mut_body" -> IF k = 1 THEN 2 ELSE IF k = 2 THEN NumMutBase
                                ELSE IF k = 3 THEN Len(MutBase("hdr", idx[2]).L.body) ELSE 0
      [] Family = "mut_struct" -> V(<<2, NumStruct>>, k)
      [] Family = "mut_key"  -> V(<<2, 3>>, k)
      [] Family = "spell"    -> V(<<2, 3, NumSpell, 3>>, k)
      [] Family = "scope"    -> V(<<2, Len(ScopeCfgs), Len(ScopeVariants)>>, k)
      [] Family = "midnight" -> V(<<2, Len(MidnightCases)>>, k)
      [] Family = "window"   -> V(<<2, IF Bound = 0 THEN 1 ELSE Len(WindowNows), NumOffsets + Len(SubSecond), 7>>, k)
      \* always-subset, ifin-subset, prefix-subset, letter case, header set, carrier, signed-list mask, container route
      [] Family = "reqs"     -> V(CASE Bound = 0 -> <<2, 2, 4, 3, 1, 1, 8, 3>> [] Bound = 1 -> <<4, 4, 4, 3, 4, 2, 8, 3>>
                                    [] OTHER -> <<4, 4, 4, 3, 4, 2, 64, 3>>, k)
      \* Bound 0: URL and body lists of <= 1 component, bodies as sent; 1: three lists (incl. the same name in both)
      \* with body variants and post-signing body flips; 2: every pair of lists of <= 2 components
      [] Family = "fold"     -> V(CASE Bound = 0 -> <<2, 7, 7, Len(ContentTypes), 2, 1, 1>>
                                    [] Bound = 1 -> <<2, 3, 3, 6, 3, 9, 3>>
                                    [] Bound = 3 -> <<1, 3, 3, 1, 3, 9, 1>>     \* a small slice for the query property
                                    [] OTHER -> <<2, 43, 43, Len(ContentTypes), 2, 1, 2>>, k)
      [] Family = "dup"      -> V(<<Len(DupCases)>>, k)
      \* carrier, folding, requirement kind, which header it concerns, is that header signed
      [] Family = "reqfold"  -> V(<<2, 2, 6, 4, 2, 3>>, k)
      \* carrier, component, shift, length
      [] Family = "leak_long" -> V(<<2, 6, 2, 3>>, k)
      \* carrier, server region/service configuration, what is wrong with the request
      [] Family = "leak_cfg" -> V(<<2, Len(LeakCfgs), 4>>, k)
      \* carrier, midnight case, what is wrong with the request
      [] Family = "leak_midnight" -> V(<<2, Len(MidnightCases), 3>>, k)
      \* method, carrier, folding, body, tampering after signing
      [] Family = "foldmethod" -> V(<<Len(FoldMethods), 2, 2, 2, 2, 3>>, k)
      \* number of filler parameters, which parameter is repeated, where the two occurrences sit
      [] Family = "manyparams" -> V(<<Len(ManyCounts), 3, 3>>, k)
      \* carrier, X-Amz-Expires value, where it travels, age of the request
      [] Family = "expires"  -> V(<<2, Len(ExpiresValues), 2, Len(ExpiresAges)>>, k)
      \* carrier, server instant with a fraction, probe, rendering
      [] Family \in {"window_frac", "leak_window"} -> V(<<2, Len(FracNows), 14, 3>>, k)
      [] Family = "leak_scope" -> V(<<2, Len(ScopeVariants)>>, k)
      \* the full product of configuration switches: carrier, S3, folding, requirement container, body type, provider
      \* kind, session token, logger, target form, request shape, defect
      [] Family = "cfgmix"   -> V(<<2, 2, 2, 3, 3, 2, 2, 2, 2, 3, 4>>, k)
      [] Family = "forever"  -> V(<<2, 3, 2>>, k)
      [] Family = "s3hash"   -> V(<<2, 2, 4, 2, 2>>, k)
      [] Family = "akid"     -> V(<<2, 8, 3>>, k)
      [] Family = "zerokey"  -> V(<<2, 4>>, k)
      [] Family = "ioerr"    -> V(<<8, 2, 2>>, k)
      [] Family = "adapter"  -> V(<<2, 3, 4, 4>>, k)
      [] Family = "logical"  -> V(<<Len(Logical)>>, k)
      [] Family = "suite"    -> V(<<Len(Wires), 2, 2>>, k)
      \* request, key, position, variant (1 plain lower-case guess, 2 upper-case guess, 3 logger enabled at Trace level)
      [] Family = "ct"       -> V(<<Len(CtReqs), IF Bound = 0 THEN 1 ELSE 2, Len(CtPositions), 3>>, k)
      [] Family = "charsets" -> V(<<Len(CharsetLabels), IF Bound = 0 THEN 5 ELSE Len(CharsetBodies), 2>>, k)
      [] Family = "degenerate" -> V(<<Len(Degenerate), 2>>, k)
      [] Family = "passthru" -> V(<<2, Len(Methods), Len(Versions), Len(HdrSets), 3, 2>>, k)

IsLeaf == Dim(Len(idx) + 1) = 0
IsCase ==
    /\ IsLeaf
    /\ Family \in {"defects", "leak_defects"} => ~({11, 12} \subseteq DefectSet) /\ ~(7 \in DefectSet /\ idx[1] = 2)

\* ---------------------------------------------------------------- bundles per family
ReqNames(hs) == SortLex(SetToSeq({LowerSeq(hs[i][1]) : i \in 1..Len(hs)}))

BundleOf ==
    CASE Family \in {"defects", "leak_defects"} ->
            \* an unparsable date has no instant: {10, 11|12} is realised as {10} (masked anyway)
            InjectAll(Bundle0(CarrierOf(idx[1])),
                      SetToSortSeq(IF 10 \in DefectSet THEN DefectSet \ {11, 12} ELSE DefectSet, <), 1, idx[Len(idx)])
      [] Family \in {"scripts", "leak_scripts"} ->
            LET b == Bundle0(IF Len(idx) >= 7 THEN CarrierOf(idx[7]) ELSE "hdr")
                pend == <<0, 1, 3>>
                outc == <<"ok", "sigerr", "foreign">>
                kinds == <<"InvalidClientTokenId", "ExpiredToken", "SignatureDoesNotMatch", "InternalServiceError">>
                dfs == <<0, 14, 16, 11, 8, 17>>      \* 17: rule 16 through an over-long signature
                b2 == [b EXCEPT !.script = [readyIn |-> pend[idx[1]], ready |-> outc[idx[2]], pendIn |-> pend[idx[3]],
                                            answer |-> outc[idx[4]], errKind |-> kinds[idx[5]], principal |-> 40 + idx[1],
                                            secret |-> Secret1]]
            IN IF dfs[idx[6]] = 0 THEN b2 ELSE IF dfs[idx[6]] = 17 THEN Inject(b2, 16, 3) ELSE Inject(b2, dfs[idx[6]], 1)
      [] Family \in {"sigmut", "leak_sigmut"} ->
            LET b == Bundle0(CarrierOf(idx[1]))
                k == idx[2]
            IN [b EXCEPT !.sigmut = CASE k <= 64 -> [kind |-> "flip", pos |-> k - 1]
                                      [] k = 65 -> [kind |-> "upper"]
                                      [] k = 66 -> [kind |-> "trunc", n |-> 63]
                                      [] k = 67 -> [kind |-> "append", b |-> B("0")]
                                      [] k = 68 -> [kind |-> "empty"]
                                      [] k = 69 -> [kind |-> "set", pos |-> 0, c |-> 90]     \* 64 characters, one of them not hex
                                      [] k = 70 -> [kind |-> "set", pos |-> 63, c |-> 71]
                                      [] k = 71 -> [kind |-> "fill", c |-> 90]              \* 'Z' x 64
                                      [] k = 72 -> [kind |-> "fill", c |-> 48]              \* '0' x 64
                                      \* over-long / short signatures that do not contain the correct one
                                      [] k = 73 -> [kind |-> "flipappend", b |-> B("0")]
                                      [] k = 74 -> [kind |-> "flipappend", b |-> B("0123456789abcdef")]
                                      [] k = 75 -> [kind |-> "fliptrunc", n |-> 63]
                                      [] k = 76 -> [kind |-> "fliptrunc", n |-> 32]]
      [] Family = "base" ->
            LET b == Bundle0(CarrierOf(idx[1]))
                L1 == [b.L EXCEPT !.method = Methods[idx[2]], !.path = Paths[idx[3]], !.query = Queries[idx[4]],
                                  !.hdrs = @ \o HdrSets[idx[5]], !.body = Bodies[idx[6]],
                                  !.hasToken = Bool(idx[7]), !.token = IF Bool(idx[7]) THEN TokenV ELSE <<>>]
            IN [b EXCEPT !.L = [L1 EXCEPT !.signed = SignAll(L1)], !.cfg.s3 = Bool(idx[8])]
      [] Family = "mut_uri" ->
            [MutBase(CarrierOf(idx[1]), idx[2]) EXCEPT !.post = << [k |-> "uribyte", pos |-> idx[3]] >>]
      [] Family = "mut_hdr" ->
            LET c == CarrierOf(idx[1])
                hp == HdrPositions(MutW(c, idx[2]))[idx[3]]
            IN [MutBase(c, idx[2]) EXCEPT !.post = << [k |-> "hdrbyte", h |-> hp[1], pos |-> hp[2]] >>]
      [] Family = "mut_body" ->
            LET c == CarrierOf(idx[1])
                bd == MutBase(c, idx[2]).L.body
            IN [MutBase(c, idx[2]) EXCEPT !.post = << [k |-> "body", v |-> SetAt(bd, idx[3], OtherByte(bd[idx[3]]))] >>]
      [] Family = "mut_struct" ->
            LET c == CarrierOf(idx[1]) IN [RichB(c) EXCEPT !.post = StructMut(RichW(c), idx[2])]
      [] Family = "mut_key" ->
            \* the key differs: provider holds another secret / signer used another secret / both the other secret
            LET b == RichB(CarrierOf(idx[1])) IN
            (CASE idx[2] = 1 -> [b EXCEPT !.script.secret = Secret2]
               [] idx[2] = 2 -> [b EXCEPT !.signSecret = Secret2]
               [] idx[2] = 3 -> [b EXCEPT !.script.secret = Secret2, !.signSecret = Secret2])
      [] Family = "spell" ->
            LET c == CarrierOf(idx[1])
                b == CASE idx[2] = 1 -> RichB(c)
                       [] idx[2] = 2 -> [RichB(c) EXCEPT !.L.paramSep = B(","), !.L.path = B("/%E2%82%AC/a-c_~.x/"),
                                                         !.L.query = B("k=%E2%82%AC%20a&k=%2F&c=&a")]
                       [] idx[2] = 3 -> [RichB(c) EXCEPT !.cfg.s3 = TRUE, !.L.path = B("/a//c/./%7Ea/../x"), !.L.paramSep = B(",   ")]
                nows == <<NowBase, AddSec(NowBase, -900), AddSec(NowBase, 900)>>
            IN [b EXCEPT !.post = SpellRecipe(MkX(b.L), idx[3]), !.cfg.now = nows[idx[4]]]
      [] Family = "scope" ->
            LET b == Bundle0(CarrierOf(idx[1])) IN
            [b EXCEPT !.L.scope = ScopeVariants[idx[3]], !.cfg.region = ScopeCfgs[idx[2]][1], !.cfg.service = ScopeCfgs[idx[2]][2]]
      [] Family = "midnight" ->
            LET b == Bundle0(CarrierOf(idx[1]))
                m == MidnightCases[idx[2]]
            IN [b EXCEPT !.L.ts = m[1], !.cfg.now = m[2], !.L.scope = [@ EXCEPT ![1] = m[3]]]
      [] Family = "window" ->
            LET b    == Bundle0(CarrierOf(idx[1]))
                now  == WindowNows[idx[2]]
                k    == idx[3]
                inst == IF k <= NumOffsets THEN AddSec(now, OffsetOf(k))
                        ELSE AddNano(AddSec(now, SubSecond[k - NumOffsets][1]), SubSecond[k - NumOffsets][2])
            IN [b EXCEPT !.L.ts = RenderTs(inst, idx[4]), !.cfg.now = now,
                         !.L.scope = [@ EXCEPT ![1] = ScopeDate(inst)]]
      [] Family = "reqs" ->
            LET style == idx[4]
                hs    == ReqHdrSets[idx[5]]
                names == ReqNames(hs)
                full  == (2 ^ Len(names)) - 1
                \* quick: sign all / none / all but one; thorough: every subset
                mask  == IF Bound < 2
                         THEN (CASE idx[7] = 1 -> full [] idx[7] = 2 -> 0
                                 [] OTHER -> IF idx[7] - 2 <= Len(names) THEN full - (2 ^ (idx[7] - 3)) ELSE full)
                         ELSE (idx[7] - 1) % (full + 1)
                b     == Bundle0(IF idx[6] = 1 THEN "hdr" ELSE "qry")
                base  == IF idx[6] = 1 THEN <<B("host"), B("x-amz-date")>> ELSE <<B("host")>>
            IN [b EXCEPT !.L.hdrs = @ \o hs,
                         \* mask index 4 (quick) / every 8th (thorough): a dropped name is listed, but capitalised
                         !.L.signed = SortLex(base \o SubsetOf(names, mask)
                                              \o (IF idx[7] % 8 = 4 /\ names # <<>> /\ mask # full
                                                  THEN << Styled((CHOOSE n \in SeqToSet(names) : ~HasElem(SubsetOf(names, mask), n)), 3) >>
                                                  ELSE <<>>)),
                         !.cfg.always = StyledSubset(ReqAlways, IF Bound = 0 THEN 3 * (idx[1] - 1) ELSE idx[1] - 1, style),
                         !.cfg.ifin = StyledSubset(ReqIfIn, IF Bound = 0 THEN 3 * (idx[2] - 1) ELSE idx[2] - 1, style),
                         !.cfg.prefix = StyledSubset(ReqPrefix, idx[3] - 1, style),
                         !.cfg.reqimpl = ReqImpls[idx[8]]]
      [] Family = "fold" ->
            LET b    == Bundle0(CarrierOf(idx[1]))
                ct   == ContentTypes[idx[4]]
                body0 == FoldList(idx[3])
                body == CASE idx[6] = 1 -> body0
                          [] idx[6] = 2 -> (IF body0 = <<>> THEN <<>> ELSE body0 \o <<AMP>>) \o <<99, 61, 255>>
                          [] idx[6] = 3 -> (IF body0 = <<>> THEN <<>> ELSE body0 \o <<AMP>>) \o B("c=%zz")
                          [] idx[6] = 4 -> <<239, 187, 191>> \o body0 \o B("&z=1")            \* UTF-8 byte-order mark: data
                          [] idx[6] = 5 -> <<255, 254>> \o body0                              \* UTF-16 byte-order mark: not UTF-8
                          [] idx[6] = 6 -> body0 \o <<10>>                                    \* a trailing line feed is data
                          [] idx[6] = 9 -> <<AMP, AMP>> \o body0 \o <<AMP>>        \* separators only / around: still a form, still folded
                          [] idx[6] = 8 -> (IF body0 = <<>> THEN <<>> ELSE body0 \o <<AMP>>) \o B("s=1;t=2;;u")   \* ';' does not separate
                          [] idx[6] = 7 -> B("z=") \o <<13, 10>> \o (IF body0 = <<>> THEN <<>> ELSE <<AMP>> \o body0) \o <<13, 10>>
                L1   == [b.L EXCEPT !.method = B("POST"), !.query = FoldList(idx[2]), !.body = body,
                                    !.hdrs = @ \o (IF ct = <<>> THEN <<>> ELSE << <<B("Content-Type"), ct>> >>)]
            \* idx[5]: folding off / on / on together with the (unrelated) S3 flag
            IN [b EXCEPT !.L = [L1 EXCEPT !.signed = SignAll(L1)], !.cfg.fold = idx[5] >= 2, !.cfg.s3 = idx[5] = 3,
                         !.post = IF idx[7] = 2 /\ body # <<>>
                                  THEN << [k |-> "body", v |-> SetAt(body, Len(body), IF body[Len(body)] = 49 THEN 50 ELSE 49)] >>
                                  ELSE IF idx[7] = 3 THEN << [k |-> "uripre", v |-> B("https://example.amazonaws.com")] >>
                                  ELSE <<>>]
      [] Family = "dup" -> DupCases[idx[1]]
      [] Family = "reqfold" ->
            \* signed-header requirements x form folding: the requirement is judged on the headers as submitted
            LET b     == Bundle0(CarrierOf(idx[1]))
                names == <<B("Content-Length"), B("Content-Type"), B("X-Amz-Meta-A"), B("X-Amz-Security-Token")>>
                n     == names[idx[4]]
                base  == IF idx[1] = 1 THEN <<B("host"), B("x-amz-date")>> ELSE <<B("host")>>
                L1    == [b.L EXCEPT !.method = B("POST"), !.body = B("a=1"), !.query = B("b=2"),
                                     !.hasToken = TRUE, !.token = TokenV,
                                     \* idx[6]: the header the requirement concerns has its value / an empty value / blanks
                                     !.hdrs = @ \o << <<B("Content-Type"), B("application/x-www-form-urlencoded")>>,
                                                      <<B("Content-Length"), IF idx[4] = 1 /\ idx[6] > 1 THEN (IF idx[6] = 2 THEN <<>> ELSE B("  ")) ELSE B("3")>>,
                                                      <<B("X-Amz-Meta-A"), IF idx[4] = 3 /\ idx[6] > 1 THEN (IF idx[6] = 2 THEN <<>> ELSE B("  ")) ELSE B("1")>> >>]
            IN [b EXCEPT !.L = [L1 EXCEPT !.signed = SortLex(base \o (IF idx[5] = 1 THEN <<LowerSeq(n)>> ELSE <<>>))],
                         !.cfg.fold = Bool(idx[2]),
                         \* kinds 5 / 6 name a proper prefix of the header as an exact (if-in-request / always) requirement:
                         \* exact requirements are matched on the whole name
                         !.cfg.always = CASE idx[3] = 1 -> <<n>> [] idx[3] = 6 -> <<SubSeq(n, 1, Len(n) - 2)>> [] OTHER -> <<>>,
                         !.cfg.ifin   = CASE idx[3] = 2 -> <<n>> [] idx[3] = 5 -> <<SubSeq(n, 1, Len(n) - 2)>> [] OTHER -> <<>>,
                         !.cfg.prefix = CASE idx[3] = 3 -> <<SubSeq(n, 1, Len(n) - 2)>> [] idx[3] = 4 -> <<SubSeq(LowerSeq(n), 1, 3)>> [] OTHER -> <<>>]
      [] Family = "cfgmix" ->
            LET b     == Bundle0(CarrierOf(idx[1]))
                kinds == <<"bytes", "vec", "unit">>
                bk    == kinds[idx[5]]
                body  == IF bk = "unit" THEN <<>> ELSE CASE idx[10] = 1 -> <<>> [] idx[10] = 2 -> B("x=1&k=w") [] OTHER -> <<0, 255, 38, 61>>
                ct    == CASE idx[10] = 1 -> <<>> [] idx[10] = 2 -> << FormHdr >>
                           [] OTHER -> << <<B("Content-Type"), B("application/octet-stream")>> >>
                L1    == [b.L EXCEPT !.method = IF idx[10] = 1 THEN B("GET") ELSE B("POST"), !.path = B("/p/%7Ea//b"),
                                     !.query = B("k=v&k=u"), !.hdrs = @ \o ct, !.body = body,
                                     !.hasToken = Bool(idx[7]), !.token = IF Bool(idx[7]) THEN TokenV ELSE <<>>]
                b2    == [b EXCEPT !.L = [L1 EXCEPT !.signed = SignAll(L1)],
                                   !.cfg.s3 = Bool(idx[2]), !.cfg.fold = Bool(idx[3]), !.cfg.reqimpl = ReqImpls[idx[4]],
                                   !.cfg.bodykind = bk, !.cfg.provider = IF Bool(idx[6]) THEN "fn" ELSE "scripted",
                                   !.cfg.always = <<B("Host")>>, !.cfg.prefix = <<B("x-amz-meta-")>>,
                                   !.post = IF Bool(idx[9]) THEN << [k |-> "uripre", v |-> B("https://example.amazonaws.com")] >> ELSE <<>>,
                                   !.script.principal = 1000 + idx[4] * 100 + idx[5] * 10 + idx[10]]
            IN CASE idx[11] = 1 -> b2 [] idx[11] = 2 -> Inject(b2, 16, 1) [] idx[11] = 3 -> Inject(b2, 11, 1)
                 [] OTHER -> Inject(b2, 9, 2)
      [] Family = "leak_cfg" ->
            \* refusals and acceptances under server configurations that code may treat specially, logger on
            LET b  == Bundle0(CarrierOf(idx[1]))
                c  == LeakCfgs[idx[2]]
                b2 == [b EXCEPT !.cfg.region = c[1], !.cfg.service = c[2], !.L.scope = [@ EXCEPT ![2] = c[1], ![3] = c[2]]]
            IN CASE idx[3] = 1 -> b2 [] idx[3] = 2 -> Inject(b2, 16, 1) [] idx[3] = 3 -> Inject(b2, 16, 3)
                 [] OTHER -> [b2 EXCEPT !.script.secret = Secret2]
      [] Family = "leak_midnight" ->
            LET b == Bundle0(CarrierOf(idx[1]))
                m == MidnightCases[idx[2]]
                b2 == [b EXCEPT !.L.ts = m[1], !.cfg.now = m[2], !.L.scope = [@ EXCEPT ![1] = m[3]]]
            IN CASE idx[3] = 1 -> b2 [] idx[3] = 2 -> Inject(b2, 16, 1) [] OTHER -> [b2 EXCEPT !.script.secret = Secret2]
      [] Family = "foldmethod" ->
            \* form folding does not depend on the method: a form body is folded (and covered by the signature) for
            \* every method, and without folding every body byte is covered
            LET b    == Bundle0(CarrierOf(idx[2]))
                body == IF idx[4] = 1 THEN B("a=1&b=2") ELSE <<>>
                L1   == [b.L EXCEPT !.method = FoldMethods[idx[1]], !.body = body, !.query = B("c=3"), !.hdrs = @ \o <<FormHdr>>,
                                    !.version = <<"HTTP/1.1", "HTTP/1.0", "HTTP/2.0">>[idx[6]]]
            IN [b EXCEPT !.L = [L1 EXCEPT !.signed = SignAll(L1)], !.cfg.fold = Bool(idx[3]),
                         !.post = IF idx[5] = 2 THEN << [k |-> "body", v |-> B("a=1&b=3")] >> ELSE <<>>]
      [] Family = "manyparams" ->
            \* long Authorization parameter lists (unknown parameters are legal) in which one real parameter occurs twice,
            \* the bogus occurrence first: the last one counts, wherever the two sit and however many others there are
            LET n     == ManyCounts[idx[1]]
                pre   == <<B("A"), B("D"), B("T"), B("x"), B("Credentia"), B("Signatur"), B("SignedHeader"), B("Z")>>
                fill(i) == pre[((i * 7 + 3) % 8) + 1] \o Dec(i, 2) \o B("=v") \o Dec(i, 1)
                cred  == B("Credential=") \o CredOf(B("AKIDEXAMPLE"))
                sh    == B("SignedHeaders=host;x-amz-date")
                sig   == B("Signature=") \o bSIG
                good  == <<cred, sig, sh>>[idx[2]]
                bad   == <<B("Credential=") \o CredOf(B("WRONG")), B("Signature=") \o [i \in 1..64 |-> 48], B("SignedHeaders=host")>>[idx[2]]
                fixed == SelectSeq(<<cred, sig, sh>>, LAMBDA x : x # good)
                third == n \div 3
                base  == [i \in 1..third |-> fill(i)] \o <<fixed[1]>> \o [i \in 1..third |-> fill(third + i)] \o <<fixed[2]>>
                         \o [i \in 1..(n - 2 * third) |-> fill(2 * third + i)]
                mid   == Len(base) \div 2
                a     == IF idx[3] = 3 THEN mid ELSE 0                     \* bogus occurrence after `a` entries
                b     == IF idx[3] = 2 THEN mid ELSE Len(base)             \* real occurrence after `b` entries (a <= b)
                ps    == SubSeq(base, 1, a) \o <<bad>> \o SubSeq(base, a + 1, b) \o <<good>> \o SubSeq(base, b + 1, Len(base))
            IN WithPost(HdrB, << [k |-> "hdrset", h |-> 3, v |-> bAlgorithm \o <<32>> \o Join(ps, B(", "))] >>, NoOver)
      [] Family = "expires" ->
            \* the window is fixed: an X-Amz-Expires parameter / header (signed, like any other) neither widens nor narrows it
            LET b   == Bundle0(CarrierOf(idx[1]))
                ev  == ExpiresValues[idx[2]]
                inst == AddSec(NowBase, ExpiresAges[idx[4]])
                L1  == IF idx[3] = 1 THEN [b.L EXCEPT !.query = B("X-Amz-Expires=") \o ev]
                       ELSE [b.L EXCEPT !.hdrs = @ \o << <<B("X-Amz-Expires"), ev>> >>]
            IN [b EXCEPT !.L = [L1 EXCEPT !.signed = SignAll(L1), !.ts = RenderTs(inst, 1), !.scope = [@ EXCEPT ![1] = ScopeDate(inst)]]]
      [] Family = "leak_scope" ->
            LET b == Bundle0(CarrierOf(idx[1])) IN [b EXCEPT !.L.scope = ScopeVariants[idx[2]]]
      [] Family \in {"window_frac", "leak_window"} ->
            LET b    == Bundle0(CarrierOf(idx[1]))
                now  == FracNows[idx[2]]
                whole == <<now[1], now[2], 0>>
                k    == idx[3]
                inst == IF k <= 6 THEN AddSec(whole, <<-901, -900, -899, 899, 900, 901>>[k])
                        ELSE LET pr == << <<-900, -1>>, <<-900, 0>>, <<-900, 1>>, <<900, -1>>, <<900, 0>>, <<900, 1>>, <<-901, 0>>, <<901, 0>> >>[k - 6]
                             IN AddNano(AddSec(now, pr[1]), pr[2])
            IN [b EXCEPT !.L.ts = RenderTs(inst, <<1, 2, 8>>[idx[4]]), !.cfg.now = now,
                         !.L.scope = [@ EXCEPT ![1] = ScopeDate(inst)]]
      [] Family = "leak_long" ->
            \* long components with two-byte characters at every byte offset (shift 0 / 1), logger enabled at Trace level
            LET b    == Bundle0(CarrierOf(idx[1]))
                len  == <<40, 100, 300>>[idx[4]]
                wide == Cat([i \in 1..len |-> <<195, 169>>])                       \* e-acute, UTF-8
                v    == (IF idx[3] = 2 THEN <<97>> ELSE <<>>) \o wide
                pv   == (IF idx[3] = 2 THEN <<97>> ELSE <<>>) \o Cat([i \in 1..len |-> B("%C3%A9")])
                L1   == CASE idx[2] = 1 -> [b.L EXCEPT !.hdrs = @ \o << <<B("X-Amz-Meta-Long"), v>> >>]
                          [] idx[2] = 2 -> [b.L EXCEPT !.path = B("/") \o pv]
                          [] idx[2] = 3 -> [b.L EXCEPT !.query = B("k=") \o pv]
                          [] idx[2] = 4 -> [b.L EXCEPT !.hasToken = TRUE, !.token = pv]
                          [] idx[2] = 5 -> [b.L EXCEPT !.method = B("POST"), !.body = v]
                          [] idx[2] = 6 -> [b.L EXCEPT !.path = B("/") \o v, !.query = B("k=") \o v]   \* raw UTF-8 in the target
            IN [b EXCEPT !.L = [L1 EXCEPT !.signed = SignAll(L1)]]
      [] Family = "forever" ->
            \* a provider that never becomes ready / never answers, for a valid request, one refused before the
            \* provider is consulted, and one with a wrong signature
            LET b  == Bundle0(CarrierOf(idx[3]))
                b2 == [b EXCEPT !.script.readyIn = IF idx[1] = 1 THEN -1 ELSE 1, !.script.pendIn = IF idx[1] = 2 THEN -1 ELSE 0]
            IN (CASE idx[2] = 1 -> b2 [] idx[2] = 2 -> Inject(b2, 14, 1) [] idx[2] = 3 -> Inject(b2, 16, 1))
      [] Family = "s3hash" ->
            \* S3 mode x an X-Amz-Content-Sha256 header (right hash, another hash, UNSIGNED-PAYLOAD, junk) x body x signer
            \* (honest: hashes the body; declared: puts the header's value into the canonical request)
            LET b   == Bundle0(CarrierOf(idx[1]))
                body == IF idx[4] = 1 THEN <<>> ELSE B("hello")
                other == B("2cf24dba5fb0a30e26e83b2ac5b9e29e1b161e5c1fa7425e73043362938b9824")
                empty == B("e3b0c44298fc1c149afbf4c8996fb92427ae41e4649b934ca495991b7852b855")
                hv  == CASE idx[3] = 1 -> (IF idx[4] = 1 THEN empty ELSE other) [] idx[3] = 2 -> (IF idx[4] = 1 THEN other ELSE empty)
                         [] idx[3] = 3 -> B("UNSIGNED-PAYLOAD") [] idx[3] = 4 -> B("junk")
                L1  == [b.L EXCEPT !.method = B("PUT"), !.body = body, !.hdrs = @ \o << <<B("X-Amz-Content-Sha256"), hv>> >>]
            IN [b EXCEPT !.L = [L1 EXCEPT !.signed = SignAll(L1)], !.cfg.s3 = Bool(idx[2]),
                         !.over = IF idx[5] = 1 THEN [honest |-> TRUE] ELSE [honest |-> TRUE, payloadhex |-> hv]]
      [] Family = "akid" ->
            \* access key ids at the limits: empty, 1, 128, 129 and 300 characters; provider knows / does not know the key
            LET b == Bundle0(CarrierOf(idx[1]))
                n == <<0, 1, 128, 129, 300, 0, 0, 0>>[idx[2]]
                outc == <<"ok", "sigerr", "foreign">>
                \* 6..8: characters that a percent-decoder or a form-decoder would change: the provider gets them verbatim
                ak == CASE idx[2] = 6 -> B("AKID%45XAMPLE") [] idx[2] = 7 -> B("AKID+EXAMPLE%") [] idx[2] = 8 -> B("AKID EXAMPLE%2F")
                        [] OTHER -> [i \in 1..n |-> 65 + (i % 26)]
            IN [b EXCEPT !.L.akid = ak, !.script.answer = outc[idx[3]]]
      [] Family = "zerokey" ->
            \* the provider refuses the access key; the request is signed with an all-zero signing key
            LET b == Bundle0(CarrierOf(idx[1]))
                kinds == <<"InvalidClientTokenId", "ExpiredToken", "SignatureDoesNotMatch", "InternalServiceError">>
            IN [b EXCEPT !.script.answer = "sigerr", !.script.errKind = kinds[idx[2]],
                         !.over = [honest |-> TRUE, rawkey |-> [i \in 1..32 |-> 0]]]
      [] Family = "adapter" ->
            \* the crate's adapter as provider: answers ok / SignatureError kinds / foreign error, x defects
            LET b == Bundle0(CarrierOf(idx[1]))
                outc == <<"ok", "sigerr", "foreign">>
                kinds == <<"InvalidClientTokenId", "ExpiredToken", "SignatureDoesNotMatch", "InternalServiceError">>
                dfs == <<0, 14, 16, 8>>
                b2 == [b EXCEPT !.cfg.provider = "fn", !.script.answer = outc[idx[2]], !.script.errKind = kinds[idx[3]]]
            IN IF dfs[idx[4]] = 0 THEN b2 ELSE Inject(b2, dfs[idx[4]], 1)
      [] Family = "ioerr" ->
            \* foreign errors of I/O types a retrying implementation would consider transient
            LET b == Bundle0(CarrierOf(idx[3]))
                kinds == <<"io_timedout", "io_interrupted", "io_wouldblock", "io_reset", "own_keytoolong", "fmt", "parse_int", "message">>
            IN IF idx[2] = 1 THEN [b EXCEPT !.script.answer = "foreign", !.script.errKind = kinds[idx[1]]]
               ELSE [b EXCEPT !.script.ready = "foreign", !.script.errKind = kinds[idx[1]]]
      [] Family = "logical" ->
            LET g  == Logical[idx[1]]
                b  == Bundle0(g.carrier)
                hs == [i \in 1..Len(g.hdrs) |-> <<g.hdrs[i][1], g.hdrs[i][2]>>]
                inst == AddSec(NowBase, g.tsoff)
                L1 == [b.L EXCEPT !.method = g.method, !.path = g.path, !.query = g.query, !.hdrs = @ \o hs,
                                  !.body = g.body, !.hasToken = g.hasToken, !.token = IF g.hasToken THEN TokenV ELSE <<>>,
                                  !.ts = RenderTs(inst, g.tsstyle), !.scope = [@ EXCEPT ![1] = ScopeDate(inst)]]
                b2 == [b EXCEPT !.L = [L1 EXCEPT !.signed = SignAll(L1)], !.cfg.s3 = g.s3, !.cfg.fold = g.fold,
                                !.script.principal = g.principal]
                w  == MkX(b2.L)
                hp == HdrPositions(w)
                \* the proposed tampering, with positions reduced modulo the actual lengths
                post == CASE g.mut = "none" -> <<>>
                          [] g.mut = "uribyte" -> << [k |-> "uribyte", pos |-> (g.pos % Len(w.uri)) + 1] >>
                          [] g.mut = "hdrbyte" -> IF hp = <<>> THEN <<>>
                                                  ELSE << [k |-> "hdrbyte", h |-> hp[(g.pos % Len(hp)) + 1][1], pos |-> hp[(g.pos % Len(hp)) + 1][2]] >>
                          [] g.mut = "body" -> IF w.body = <<>> THEN << [k |-> "body", v |-> B("x")] >>
                                               ELSE << [k |-> "body", v |-> SetAt(w.body, (g.pos % Len(w.body)) + 1, OtherByte(w.body[(g.pos % Len(w.body)) + 1]))] >>
                          [] g.mut = "spell" -> SpellRecipe(w, (g.pos % NumSpell) + 1)
                          [] g.mut = "method" -> << [k |-> "method", v |-> B("PATCH")] >>
            IN [b2 EXCEPT !.post = post]
      [] Family = "suite" ->
            LET g  == Wires[idx[1]]
                hs == [i \in 1..Len(g.headers) |-> <<g.headers[i][1], g.headers[i][2]>>]
            IN [Bundle0("hdr") EXCEPT !.post = << [k |-> "method", v |-> g.method], [k |-> "uri", v |-> g.uri],
                                                  [k |-> "hdrs", v |-> hs], [k |-> "body", v |-> g.body] >>,
                                      !.over = [sent |-> TRUE], !.cfg.fold = Bool(idx[2]),
                                      !.cfg.provider = IF idx[3] = 1 THEN "fn" ELSE "scripted"]
      [] Family = "ct" ->
            LET rq == CtReqs[idx[1]]
                b0 == CASE rq = 1 -> Bundle0("hdr") [] rq = 2 -> RichB("hdr")
                        [] rq = 3 -> [Bundle0("hdr") EXCEPT !.L.path = B("/a/b"), !.L.query = B("x=1&y=2")]
                        [] OTHER -> [Bundle0("hdr") EXCEPT !.L.query = B("n=NONCE0000")]
                sec == IF idx[2] = 1 THEN Secret1 ELSE Secret2
                p   == CtPositions[idx[3]]
            IN [b0 EXCEPT !.script.secret = sec, !.signSecret = sec,
                          !.sigmut = [kind |-> IF idx[4] = 2 THEN "upperflip" ELSE "flip", pos |-> IF p < 0 THEN 0 ELSE p]]
      [] Family = "charsets" ->
            LET b  == Bundle0("hdr")
                lab == IF idx[3] = 1 THEN CharsetLabels[idx[1]] ELSE UpperSeq(CharsetLabels[idx[1]])
                L1 == [b.L EXCEPT !.method = B("POST"), !.body = CharsetBodies[idx[2]],
                                  !.hdrs = @ \o << <<B("Content-Type"), B("application/x-www-form-urlencoded; charset=") \o lab>> >>]
            IN [b EXCEPT !.L = [L1 EXCEPT !.signed = SignAll(L1)], !.cfg.fold = TRUE]
      [] Family = "degenerate" ->
            [Bundle0("hdr") EXCEPT !.post = Degenerate[idx[1]], !.cfg.fold = Bool(idx[2])]
      [] Family = "passthru" ->
            LET b  == Bundle0(CarrierOf(idx[1]))
                kinds == <<"bytes", "vec", "unit">>
                L1 == [b.L EXCEPT !.method = Methods[idx[2]], !.version = Versions[idx[3]], !.hdrs = @ \o HdrSets[idx[4]],
                                  !.body = IF idx[5] = 3 THEN <<>> ELSE Bodies[idx[6] + 1], !.query = Queries[idx[4]]]
            IN [b EXCEPT !.L = [L1 EXCEPT !.signed = SignAll(L1)], !.cfg.bodykind = kinds[idx[5]],
                         !.cfg.provider = IF idx[3] % 2 = 0 THEN "fn" ELSE "scripted",
                         !.post = IF idx[2] % 2 = 0 THEN << [k |-> "uripre", v |-> B("http://example.amazonaws.com:8080")] >> ELSE <<>>,
                         !.script.principal = 100 * idx[2] + 10 * idx[3] + idx[4]]

Case == CaseOfBundle(BundleOf, <<Family>> \o idx)
        @@ (IF Family = "ct"
            THEN [group |-> <<CtReqs[idx[1]], idx[2], idx[4]>>, tracelog |-> idx[4] = 3, nonce |-> CtNonce(CtReqs[idx[1]]),
                  who |-> IF idx[3] = 1 THEN "ref" ELSE IF CtPositions[idx[3]] < 0 THEN "control-0" ELSE "p" \o ToString(CtPositions[idx[3]])]
            ELSE [group |-> 0, who |-> "", tracelog |-> FALSE, nonce |-> ""])

\* abstract/concrete consistency: the earliest injected defect is the rule the byte-level reading reports
\* (rule 16 is not a structural rule; 0 = none)
ExpectedFirst == LET S == DefectSet \ {16} IN IF S = {} THEN 0 ELSE CHOOSE m \in S : \A x \in S : m <= x
ConsistentFirst == (IsCase /\ Family \in {"defects", "leak_defects"}) => FirstRuleOf(BundleOf) = ExpectedFirst

\* C02 law on the specification itself: an admissible respelling leaves the reading unchanged
SpellingKeepsCanonicalForm ==
    (IsCase /\ Family = "spell") =>
        LET r0 == Q(EnvOfWire(MkX(BundleOf.L)), BundleOf.cfg)
            r1 == Q(EnvOfWire(WireOf(BundleOf)), BundleOf.cfg)
        IN r0.err.rule = 0 /\ r1.err.rule = 0 /\ r0.creqPres = r1.creqPres /\ r0.stsPre = r1.stsPre
           /\ r0.payload = r1.payload /\ r0.akid = r1.akid /\ r0.token = r1.token

Init == idx = <<>>
Next == \E i \in 1..Dim(Len(idx) + 1) : idx' = Append(idx, i)
Spec == Init /\ [][Next]_idx

Emit == IsCase => PrintT(ToJson(Case))
=============================================================================
