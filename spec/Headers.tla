------------------------------ MODULE Headers ------------------------------
(***************************************************************************)
(* Header canonicalisation (C11).                                          *)
(*  - a value is trimmed of leading/trailing SPACES and inner runs of     *)
(*    spaces collapse to one (HTAB and every other byte are data);         *)
(*  - values of one (lower-cased) name are joined by ',' in arrival order; *)
(*  - only the names in the signed list are emitted, in list order (the    *)
(*    list is sorted by the carrier-parsing step).                         *)
(* A request's headers are a sequence of <<name, value>> pairs with names *)
(* already lower-case (the http crate lower-cases them on insertion).      *)
(***************************************************************************)
EXTENDS Bytes

SP == 32

\* declarative: between the first and last non-space byte keep every non-space byte and the
\* first space of each run
NormValue(v) ==
    LET nonsp == {i \in 1..Len(v) : v[i] # SP}
    IN IF nonsp = {} THEN <<>>
       ELSE LET lo   == Min(nonsp)
                hi   == Max(nonsp)
                idxs == [k \in 1..(hi - lo + 1) |-> lo + k - 1]
                kept == SelectSeq(idxs, LAMBDA i : v[i] # SP \/ v[i-1] # SP)
            IN [k \in 1..Len(kept) |-> v[kept[k]]]

\* all normalised values of header `name`, in arrival order
ValuesOf(hdrs, name) ==
    LET sel == SelectSeq(hdrs, LAMBDA h : h[1] = name)
    IN [k \in 1..Len(sel) |-> NormValue(sel[k][2])]

HasHeader(hdrs, name) == \E i \in 1..Len(hdrs) : hdrs[i][1] = name
HeaderNames(hdrs) == {hdrs[i][1] : i \in 1..Len(hdrs)}

\* first normalised value of a header that is present
FirstValue(hdrs, name) == ValuesOf(hdrs, name)[1]

\* "name:v1,v2\n" for every listed name that occurs in the request; a listed name that does
\* not occur contributes nothing (the library skips it but keeps it in the list line)
HeaderBlock(hdrs, signed) ==
    Cat([k \in 1..Len(signed) |->
           IF HasHeader(hdrs, signed[k])
           THEN signed[k] \o <<58>> \o Join(ValuesOf(hdrs, signed[k]), <<44>>) \o <<10>>
           ELSE <<>>])

SignedLine(signed) == Join(signed, <<59>>)
=============================================================================
