SPECIFICATION Spec
CONSTANT Threads <- mcThreads
CONSTANT Requests <- mcRequests
CONSTANT Seeds <- mcSeeds
CONSTANT PerThread = 1
CONSTANT SortBeforeRender = FALSE
INVARIANT Deterministic
CHECK_DEADLOCK FALSE
