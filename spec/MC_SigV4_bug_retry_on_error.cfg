SPECIFICATION Spec
CONSTANT Bug = "retry_on_error"
CONSTANT MaxDefects = 2
CONSTANT MaxValidations = 1
CONSTANT AllowForever = FALSE
CONSTANT MaxPending = 1
INVARIANT ProviderOnce
CHECK_DEADLOCK FALSE
