SPECIFICATION Spec
CONSTANT Bug = "none"
CONSTANT MaxDefects = 2
CONSTANT MaxValidations = 1
CONSTANT AllowForever = TRUE
CONSTANT MaxPending = 1
INVARIANT TypeOK
INVARIANT Precedence
INVARIANT Taxonomy
INVARIANT ProviderOnce
INVARIANT ProviderLast
INVARIANT CallsExact
INVARIANT OkNeedsAnswer
INVARIANT OkSound
INVARIANT Complete
INVARIANT PendingNeverAccepts
INVARIANT HistoryFree
INVARIANT TotalCalls
INVARIANT RulesBigStep
INVARIANT CallOnlyWhenReady
CHECK_DEADLOCK FALSE
