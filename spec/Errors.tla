------------------------------- MODULE Errors -------------------------------
(***************************************************************************)
(* The fixed error taxonomy (C13): the kind of a SignatureError alone      *)
(* determines its error code and its HTTP status.                          *)
(***************************************************************************)
\* the fixed kind -> HTTP status table (error.rs)
Status(kind) ==
    CASE kind \in {"IncompleteSignature", "InvalidBodyEncoding", "InvalidRequestMethod", "InvalidURIPath",
                   "MalformedQueryString", "MissingAuthenticationToken"} -> 400
      [] kind \in {"IO", "InternalServiceError"} -> 500
      [] kind \in {"ExpiredToken", "InvalidClientTokenId", "InvalidContentType", "SignatureDoesNotMatch"} -> 403
Code(kind) == IF kind \in {"IO", "InternalServiceError"} THEN "InternalFailure" ELSE kind
AllKinds == {"ExpiredToken", "IO", "InternalServiceError", "InvalidBodyEncoding", "InvalidClientTokenId",
             "InvalidContentType", "InvalidRequestMethod", "IncompleteSignature", "InvalidURIPath",
             "MalformedQueryString", "MissingAuthenticationToken", "SignatureDoesNotMatch"}
=============================================================================
