"""The AWS SigV4 test-suite copies that live in the repository (src/aws-sig-v4-test-suite) as a corpus of wire
requests with signatures computed by AWS, plus AWS's own canonical request and string to sign.

They are an oracle independent of both the specification and the library: a signed request of the suite that the
http crate admits is genuine, so it must be accepted (C02), and the canonical request / string to sign the library
reports for it must be the bytes in the .creq / .sts files (which the trace specification has, in the same run,
compared with its own).  Requests the http crate refuses to represent (a space or raw UTF-8 in the target,
obs-fold header values) never reach the library and are counted as inadmissible.
"""
import json
import os


# suite entries whose .sreq is not a complete signed request (SignedHeaders names content-type, the request has none)
INCOMPLETE = {"post-x-www-form-urlencoded"}


def repo_dir():
    return os.environ.get("VERIF_REPO") or "/repo"


def parse_sreq(raw):
    head, sep, body = raw.partition(b"\n\n")
    lines = head.split(b"\n")
    first = lines[0]
    method, _, rest = first.partition(b" ")
    uri, _, version = rest.rpartition(b" ")
    headers = []
    for ln in lines[1:]:
        if ln[:1] in (b" ", b"\t") and headers:
            headers[-1][1] += b"\n" + ln          # obs-fold: kept as sent (the http crate refuses it)
            continue
        name, _, value = ln.partition(b":")
        headers.append([name, value])
    # optional whitespace after the colon is not part of the field value (RFC 7230 3.2.4): a front end strips it
    headers = [[n, v.lstrip(b" \t")] for n, v in headers]
    return method, uri, headers, body


def load():
    """[(name, wire dict, creq bytes or None, sts bytes or None)]"""
    root = os.path.join(repo_dir(), "src", "aws-sig-v4-test-suite")
    out = []
    if not os.path.isdir(root):
        return out
    for d, _, files in sorted(os.walk(root)):
        for f in sorted(files):
            if not f.endswith(".sreq"):
                continue
            base = os.path.join(d, f[:-5])
            raw = open(base + ".sreq", "rb").read().replace(b"\r", b"")
            method, uri, headers, body = parse_sreq(raw)

            def rd(ext):
                try:
                    return open(base + ext, "rb").read().replace(b"\r", b"")
                except OSError:
                    return None
            wire = {"name": f[:-5], "method": list(method), "uri": list(uri),
                    "headers": [[list(n), list(v)] for n, v in headers], "body": list(body)}
            out.append((f[:-5], wire, rd(".creq"), rd(".sts")))
    return out


def write_wires(path):
    items = load()
    with open(path, "w") as f:
        for _, w, _, _ in items:
            f.write(json.dumps(w, separators=(",", ":")) + "\n")
    return items
