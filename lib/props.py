"""Per-property check definitions. Each function drives lib/vp.py steps and returns nothing;
violations and coverage accumulate in ctx."""
import json
from vp import *

TRUSTED = ["TLC 1.8 (tla2tools)", "the harness wire builder / executor (harness/src)",
           "http, bytes, tower, chrono crates as the environment"]


def fn_key(ln):
    """distinctness key for function-level events: op + input + result class"""
    try:
        e = json.loads(ln)
    except Exception:
        return None
    inp = e.get("p") or e.get("q") or e.get("el") or e.get("v") or []
    return (e.get("op"), bytes(inp) if isinstance(inp, list) else str(inp), e.get("s3", e.get("plus", None)), e.get("res"))


def fn_campaign(ctx, gens, rfamilies):
    """gens: list of (Family, Bound); rfamilies: list of (family, n). All judged by Trace_Fn."""
    for fam, bound in gens:
        cases, n = tlc_gen(ctx, "Gen_Fn", {"Family": fam, "Bound": bound}, "%s-%s" % (fam, bound))
        tr = hrun(ctx, cases, fam)
        validate(ctx, "Trace_Fn", tr, fam, distinct_key=fn_key)
    for fam, n in rfamilies:
        cases, n = hgen(ctx, fam, n)
        tr = hrun(ctx, cases, "R:" + fam)
        validate(ctx, "Trace_Fn", tr, "R:" + fam, distinct_key=fn_key)


def law_cfg(inv, fam, bound):
    return ["SPECIFICATION Spec", "INVARIANT " + inv, 'CONSTANT Family = "%s"' % fam,
            "CONSTANT Bound = %d" % bound, "CHECK_DEADLOCK FALSE"]


def C09(ctx):
    q = ctx.quick
    # the reference's own laws (normal form, idempotence, spelling-insensitivity, exact failure set)
    mc(ctx, "MC_UriCanon", law_cfg("PathLaws", "path_segs", 3 if q else 4), label="PathLaws-segs")
    mc(ctx, "MC_UriCanon", law_cfg("PathLaws", "path_bytes", 0), label="PathLaws-bytes")
    mc(ctx, "MC_UriCanon", law_cfg("ElemLaws", "elem_bytes", 0), label="ElemLaws-bytes")
    if not q:
        mc(ctx, "MC_UriCanon", law_cfg("PathLaws", "path_escapes", 0), label="PathLaws-escapes")
    fn_campaign(ctx,
                [("path_bytes", 0), ("path_escapes", 0), ("path_trunc", 0), ("elem_bytes", 0),
                 ("path_segs", 3 if q else 5)],
                [("path", 4000 if q else 200000), ("elem", 2000 if q else 50000)])
    return dict(
        rule="E: TLC enumerates every byte x 5 spellings x 3 contexts x 2 modes, every %%xy over ASCII pairs, truncated "
             "escapes, and every path of <= %d segments over the 15-symbol segment alphabet in both modes; R: seeded "
             "random paths/elements over all UTF-8. Each is executed through canonicalize_uri_path / "
             "normalize_uri_path_component and judged by TLC re-evaluating UriCanon!CanonPath on the recorded input. "
             "distinct = distinct (op, input, mode, result class)." % (3 if q else 5),
        assumptions=["trailing '.'/'..' segment: with or without trailing slash both admitted (statement silent)",
                     "inputs that are not valid UTF-8 cannot be passed to a &str API (counted as inadmissible)"])


def C10(ctx):
    q = ctx.quick
    mc(ctx, "MC_UriCanon", law_cfg("QueryLaws", "query_lists", 2), label="QueryLaws-lists")
    mc(ctx, "MC_UriCanon", law_cfg("QueryLaws", "query_bytes", 0), label="QueryLaws-bytes")
    mc(ctx, "MC_UriCanon", law_cfg("BrokenQueryLaws", "query_lists", 2), expect_violation="BrokenQueryLaws",
       label="neg-rendered-sort")
    fn_campaign(ctx,
                [("query_bytes", 0), ("query_ampamp", 2), ("query_lists", 2 if q else 3)],
                [("query", 4000 if q else 200000)])
    return dict(
        rule="E: TLC enumerates every parameter list of <= %d components over 80 components (10 names incl. prefix-"
             "related ones x 7 values, with and without '='), all orders being distinct inputs, '&&' variants, every "
             "byte in 5 spellings in name and value position; R: seeded random queries. Executed through "
             "query_string_to_normalized_map + canonicalize_query_to_string, judged by TLC re-evaluating "
             "UriCanon!CanonQuery. distinct = distinct (input, result class)." % (2 if q else 3),
        assumptions=["process-level hash seeds are varied by the C18 check, which reuses this oracle"])


PROPS = {"C09": C09, "C10": C10}
