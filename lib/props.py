"""Per-property check definitions. Each function drives lib/vp.py steps and returns nothing;
violations and coverage accumulate in ctx."""
import json
from vp import *

TRUSTED = ["TLC 1.8 (tla2tools)", "the harness wire builder / executor (harness/src)",
           "http, bytes, tower, chrono crates as the environment"]


def fn_key(ln):
    """distinctness key for function-level events: op + input + result class"""
    try:
        e = json.loads(ln)
    except Exception:
        return None
    if e.get("op") == "key":
        return ("key", bytes(e["secret"]), e["cap"], tuple(e.get("date", [])), bytes(e["region"]), bytes(e["service"]), e["res"])
    inp = e.get("p") or e.get("q") or e.get("el") or e.get("v") or e.get("s") or []
    return (e.get("op"), bytes(inp) if isinstance(inp, list) else str(inp), e.get("s3", e.get("plus", None)), e.get("res"))


def fn_campaign(ctx, gens, rfamilies):
    """gens: list of (Family, Bound); rfamilies: list of (family, n). All judged by Trace_Fn."""
    for fam, bound in gens:
        cases, n = tlc_gen(ctx, "Gen_Fn", {"Family": fam, "Bound": bound}, "%s-%s" % (fam, bound))
        tr = hrun(ctx, cases, fam)
        validate(ctx, "Trace_Fn", tr, fam, distinct_key=fn_key)
    for fam, n in rfamilies:
        cases, n = hgen(ctx, fam, n)
        tr = hrun(ctx, cases, "R:" + fam)
        validate(ctx, "Trace_Fn", tr, "R:" + fam, distinct_key=fn_key)


def law_cfg(inv, fam, bound):
    return ["SPECIFICATION Spec", "INVARIANT " + inv, 'CONSTANT Family = "%s"' % fam,
            "CONSTANT Bound = %d" % bound, "CHECK_DEADLOCK FALSE"]


def C09(ctx):
    q = ctx.quick
    # the reference's own laws (normal form, idempotence, spelling-insensitivity, exact failure set)
    mc(ctx, "MC_UriCanon", law_cfg("PathLaws", "path_segs", 3 if q else 4), label="PathLaws-segs")
    mc(ctx, "MC_UriCanon", law_cfg("PathLaws", "path_bytes", 0), label="PathLaws-bytes")
    mc(ctx, "MC_UriCanon", law_cfg("ElemLaws", "elem_bytes", 0), label="ElemLaws-bytes")
    if not q:
        mc(ctx, "MC_UriCanon", law_cfg("PathLaws", "path_escapes", 0), label="PathLaws-escapes")
    fn_campaign(ctx,
                [("path_bytes", 0), ("path_escapes", 0), ("path_trunc", 0), ("elem_bytes", 0),
                 ("path_segs", 3 if q else 5)],
                [("path", 4000 if q else 200000), ("elem", 2000 if q else 50000)])
    return dict(
        rule="E: TLC enumerates every byte x 5 spellings x 3 contexts x 2 modes, every %%xy over ASCII pairs, truncated "
             "escapes, and every path of <= %d segments over the 15-symbol segment alphabet in both modes; R: seeded "
             "random paths/elements over all UTF-8. Each is executed through canonicalize_uri_path / "
             "normalize_uri_path_component and judged by TLC re-evaluating UriCanon!CanonPath on the recorded input. "
             "distinct = distinct (op, input, mode, result class)." % (3 if q else 5),
        assumptions=["trailing '.'/'..' segment: with or without trailing slash both admitted (statement silent)",
                     "inputs that are not valid UTF-8 cannot be passed to a &str API (counted as inadmissible)"])


def C10(ctx):
    q = ctx.quick
    mc(ctx, "MC_UriCanon", law_cfg("QueryLaws", "query_lists", 2), label="QueryLaws-lists")
    mc(ctx, "MC_UriCanon", law_cfg("QueryLaws", "query_bytes", 0), label="QueryLaws-bytes")
    mc(ctx, "MC_UriCanon", law_cfg("BrokenQueryLaws", "query_lists", 2), expect_violation="BrokenQueryLaws",
       label="neg-rendered-sort")
    fn_campaign(ctx,
                [("query_bytes", 0), ("query_ampamp", 2), ("query_lists", 2 if q else 3)],
                [("query", 4000 if q else 200000)])
    return dict(
        rule="E: TLC enumerates every parameter list of <= %d components over 80 components (10 names incl. prefix-"
             "related ones x 7 values, with and without '='), all orders being distinct inputs, '&&' variants, every "
             "byte in 5 spellings in name and value position; R: seeded random queries. Executed through "
             "query_string_to_normalized_map + canonicalize_query_to_string, judged by TLC re-evaluating "
             "UriCanon!CanonQuery. distinct = distinct (input, result class)." % (2 if q else 3),
        assumptions=["process-level hash seeds are varied by the C18 check, which reuses this oracle"])


def C06(ctx):
    q = ctx.quick
    mc(ctx, "MC_KeyChain", "MC_KeyChain.cfg", label="PathIndependence")
    mc(ctx, "MC_KeyChain", "MC_KeyChain_reach.cfg", expect_violation="NeverSigning", label="reach-ksigning")
    fn_campaign(ctx, [("key_caps", 0), ("key_chain", 0)], [("key", 3000 if q else 150000)])
    return dict(
        rule="MC: every composition of the 10 public derivation methods reaches the same symbolic HMAC term per key kind "
             "(PathIndependence), with a reachability control. E: 13 secret lengths x 3 contents x 8 capacities for from_str; "
             "8 secrets x 18 dates x 6 regions x 6 services through all 10 method paths for the default type. R: seeded "
             "random secrets/dates/names. The harness evaluates the four HMAC steps with its own HMAC-SHA256 and logs "
             "inputs and outputs; TLC checks the inputs are exactly 'AWS4'+secret, YYYYMMDD (Civil/Iso8601), region, service, "
             "'aws4_request', that the steps are chained, and that the library's bytes on every path equal them. "
             "distinct = distinct (secret, cap, date, region, service, result).",
        assumptions=["the harness's own HMAC-SHA256 (self-tested against RFC 4231 vectors on every run)",
                     "capacities are const generics: the instantiated list is {0,3,4,5,8,44,64,100}"])


def C16(ctx):
    q = ctx.quick
    gens = [("ts_field", 0), ("ts_year", 0), ("ts_calendar", 0), ("ts_frac", 0), ("ts_seps", 0), ("ts_affix", 0)]
    if not q:
        gens.append(("ts_offset", 0))
    fn_campaign(ctx, gens, [("ts", 6000 if q else 200000)])
    return dict(
        rule="E: TLC enumerates each two-digit field 00..99 with the others fixed (basic+extended), 8 boundary years, every "
             "(month, day<=31) of 1900/2000/2015/2016/2100, fraction lengths 0..12 with '.' and ',', all 16 separator "
             "combinations x 6 zones, 50 affix/degenerate strings%s; R: seeded renderings of random instants with one random "
             "mutation (incl. non-ASCII digits). Each string goes through the library's authenticator factory (unstable "
             "API); TLC re-parses the recorded string with Iso8601!Parse and requires: accept with exactly the reference "
             "UTC instant, the compact UTC line in the string-to-sign and the UTC scope date / reject with "
             "IncompleteSignature 400 / either where the statement is silent. distinct = distinct (string, result)."
             % ("" if q else ", every offset sign x hh 00..99 x mm 00..99 x colon"),
        assumptions=["don't-care: mixed basic/extended separators, lower-case t/z, offset hours 20-23, year 0000, instants "
                     "whose UTC value leaves years 1..9999",
                     "end-to-end use of timestamps (both carriers, window, scope) is covered by C04/C03/C13 traces"])


def fn_key2(ln):
    return hash(ln)


PROPS = {"C06": C06, "C09": C09, "C10": C10, "C16": C16}
