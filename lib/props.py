"""Per-property check definitions. Each function drives lib/vp.py steps and returns nothing;
violations and coverage accumulate in ctx."""
import json, os, re, time
from vp import *

TRUSTED = ["TLC 1.8 (tla2tools)", "the harness wire builder / executor (harness/src)",
           "http, bytes, tower, chrono crates as the environment"]


def fn_key(ln):
    """distinctness key for function-level events: op + input + result class"""
    try:
        e = json.loads(ln)
    except Exception:
        return None
    if e.get("op") == "key":
        return ("key", bytes(e["secret"]), e["cap"], tuple(e.get("date", [])), bytes(e["region"]), bytes(e["service"]), e["res"])
    inp = e.get("p") or e.get("q") or e.get("el") or e.get("v") or e.get("s") or []
    return (e.get("op"), bytes(inp) if isinstance(inp, list) else str(inp), e.get("s3", e.get("plus", None)), e.get("res"))


def fn_campaign(ctx, gens, rfamilies):
    """gens: list of (Family, Bound); rfamilies: list of (family, n). All judged by Trace_Fn."""
    for fam, bound in gens:
        cases, n = tlc_gen(ctx, "Gen_Fn", {"Family": fam, "Bound": bound}, "%s-%s" % (fam, bound))
        tr = hrun(ctx, cases, fam)
        validate(ctx, "Trace_Fn", tr, fam, distinct_key=fn_key)
    for fam, n in rfamilies:
        cases, n = hgen(ctx, fam, n)
        tr = hrun(ctx, cases, "R:" + fam)
        validate(ctx, "Trace_Fn", tr, "R:" + fam, distinct_key=fn_key)


def law_cfg(inv, fam, bound):
    return ["SPECIFICATION Spec", "INVARIANT " + inv, 'CONSTANT Family = "%s"' % fam,
            "CONSTANT Bound = %d" % bound, "CHECK_DEADLOCK FALSE"]


def C09(ctx):
    q = ctx.quick
    # the reference's own laws (normal form, idempotence, spelling-insensitivity, exact failure set)
    mc(ctx, "MC_UriCanon", law_cfg("PathLaws", "path_segs", 3 if q else 4), label="PathLaws-segs")
    mc(ctx, "MC_UriCanon", law_cfg("PathLaws", "path_bytes", 0), label="PathLaws-bytes")
    mc(ctx, "MC_UriCanon", law_cfg("ElemLaws", "elem_bytes", 0), label="ElemLaws-bytes")
    if not q:
        mc(ctx, "MC_UriCanon", law_cfg("PathLaws", "path_escapes", 0), label="PathLaws-escapes")
    fn_campaign(ctx,
                [("path_bytes", 0), ("path_escapes", 0), ("path_trunc", 0), ("elem_bytes", 0),
                 ("path_segs", 3 if q else 5)],
                [("path", 4000 if q else 200000), ("elem", 2000 if q else 50000)])
    suite_campaign(ctx, only=r"relative|slash|unreserved|utf8$")
    return dict(
        rule="E: TLC enumerates every byte x 5 spellings x 3 contexts x 2 modes, every %%xy over ASCII pairs, truncated "
             "escapes, and every path of <= %d segments over the 15-symbol segment alphabet in both modes; R: seeded "
             "random paths/elements over all UTF-8. Each is executed through canonicalize_uri_path / "
             "normalize_uri_path_component and judged by TLC re-evaluating UriCanon!CanonPath on the recorded input. "
             "distinct = distinct (op, input, mode, result class)." % (3 if q else 5),
        assumptions=["trailing '.'/'..' segment: with or without trailing slash both admitted (statement silent)",
                     "inputs that are not valid UTF-8 cannot be passed to a &str API (counted as inadmissible)"])


def fresh_process_determinism(ctx, fam, bound, nproc, label):
    """C10/C18: the same function-level cases in `nproc` fresh processes (different hash seeds); Trace_Det requires
    one output per input. The first process is the reference (its trace is validated by Trace_Fn)."""
    import hashlib
    cases, n = tlc_gen(ctx, "Gen_Fn", {"Family": fam, "Bound": bound}, "%s-%s-procs" % (fam, bound))
    d = os.path.dirname(cases)
    obs = []
    for k in range(nproc):
        out = os.path.join(d, "p%d.ndjson" % k)
        rc, o = sh([CONFORM, "run", cases, out], timeout=1800, env={"RUST_BACKTRACE": "0"})
        if rc != 0:
            raise ToolError("harness run failed: " + o[-300:])
        if k == 0:
            validate(ctx, "Trace_Fn", out, label + "-ref", distinct_key=fn_key)
        for ln in open(out):
            e = json.loads(ln)
            inp = e.get("q") or e.get("p") or []
            obs.append({"op": "det", "id": inp, "who": "ref" if k == 0 else "proc%d" % k, "res": e.get("res"),
                        "proj": hashlib.sha256(json.dumps([e.get("res"), e.get("out"), e.get("kind")]).encode()).hexdigest()})
    obs.sort(key=lambda e: (json.dumps(e["id"]), 0 if e["who"] == "ref" else 1))
    dt = os.path.join(d, "det.ndjson")
    with open(dt, "w") as w:
        for e in obs:
            w.write(json.dumps(e) + "\n")
    validate(ctx, "Trace_Det", dt, label, group="key", chunk=20000)


def C10(ctx):
    q = ctx.quick
    mc(ctx, "MC_UriCanon", law_cfg("QueryLaws", "query_lists", 2), label="QueryLaws-lists")
    mc(ctx, "MC_UriCanon", law_cfg("QueryLaws", "query_bytes", 0), label="QueryLaws-bytes")
    mc(ctx, "MC_UriCanon", law_cfg("BrokenQueryLaws", "query_lists", 2), expect_violation="BrokenQueryLaws",
       label="neg-rendered-sort")
    fn_campaign(ctx,
                [("query_bytes", 0), ("query_escapes", 0), ("query_trunc", 0), ("query_wide", 0), ("query_many", 0), ("query_ampamp", 2),
                 ("query_lists", 2 if q else 3)],
                [("query", 4000 if q else 200000)])
    fresh_process_determinism(ctx, "query_lists", 2, 4 if q else 16, "fresh-processes")
    fresh_process_determinism(ctx, "query_many", 0, 4 if q else 16, "fresh-processes-many")
    req_campaign(ctx, [("fold", 3)])       # form bodies are query strings too: trailing line breaks, escapes, same names
    suite_campaign(ctx, only=r"query")
    return dict(
        rule="E: TLC enumerates every parameter list of <= %d components over 80 components (10 names incl. prefix-"
             "related ones x 7 values, with and without '='), all orders being distinct inputs, '&&' variants, every "
             "byte in 5 spellings in name and value position; R: seeded random queries. Executed through "
             "query_string_to_normalized_map + canonicalize_query_to_string, judged by TLC re-evaluating "
             "UriCanon!CanonQuery. distinct = distinct (input, result class)." % (2 if q else 3),
        assumptions=["process-level randomness: the <=2-component lists are canonicalised in 4 (thorough 16) fresh processes "
                     "(different hash seeds) and Trace_Det requires identical outputs; C18 does the same end to end"])


def C06(ctx):
    q = ctx.quick
    mc(ctx, "MC_KeyChain", "MC_KeyChain.cfg", label="PathIndependence")
    mc(ctx, "MC_KeyChain", "MC_KeyChain_reach.cfg", expect_violation="NeverSigning", label="reach-ksigning")
    fn_campaign(ctx, [("key_caps", 0), ("key_chain", 0)], [("key", 3000 if q else 150000)])
    return dict(
        rule="MC: every composition of the 10 public derivation methods reaches the same symbolic HMAC term per key kind "
             "(PathIndependence), with a reachability control. E: 13 secret lengths x 3 contents x 8 capacities for from_str; "
             "8 secrets x 18 dates x 6 regions x 6 services through all 10 method paths for the default type. R: seeded "
             "random secrets/dates/names. The harness evaluates the four HMAC steps with its own HMAC-SHA256 and logs "
             "inputs and outputs; TLC checks the inputs are exactly 'AWS4'+secret, YYYYMMDD (Civil/Iso8601), region, service, "
             "'aws4_request', that the steps are chained, and that the library's bytes on every path equal them. "
             "distinct = distinct (secret, cap, date, region, service, result).",
        assumptions=["the harness's own HMAC-SHA256 (self-tested against RFC 4231 vectors on every run)",
                     "capacities are const generics: the instantiated list is {0,3,4,5,8,44,64,100}"])


def C16(ctx):
    q = ctx.quick
    gens = [("ts_field", 0), ("ts_year", 0), ("ts_calendar", 0), ("ts_frac", 0), ("ts_seps", 0), ("ts_affix", 0), ("ts_subst", 0)]
    if not q:
        gens.append(("ts_offset", 0))
    fn_campaign(ctx, gens, [("ts", 6000 if q else 200000)])
    return dict(
        rule="E: TLC enumerates each two-digit field 00..99 with the others fixed (basic+extended), 8 boundary years, every "
             "(month, day<=31) of 1900/2000/2015/2016/2100, fraction lengths 0..12 with '.' and ',', all 16 separator "
             "combinations x 6 zones, 50 affix/degenerate strings%s; R: seeded renderings of random instants with one random "
             "mutation (incl. non-ASCII digits). Each string goes through the library's authenticator factory (unstable "
             "API); TLC re-parses the recorded string with Iso8601!Parse and requires: accept with exactly the reference "
             "UTC instant, the compact UTC line in the string-to-sign and the UTC scope date / reject with "
             "IncompleteSignature 400 / either where the statement is silent. distinct = distinct (string, result)."
             % ("" if q else ", every offset sign x hh 00..99 x mm 00..99 x colon"),
        assumptions=["don't-care: mixed basic/extended separators, lower-case t/z, offset hours 20-23, year 0000, instants "
                     "whose UTC value leaves years 1..9999",
                     "end-to-end use of timestamps (both carriers, window, scope) is covered by C04/C03/C13 traces"])


def req_key(ln):
    """distinctness key for request traces: one key per case = (id, outcome class)"""
    if '"ev":"End"' not in ln:
        return None
    try:
        e = json.loads(ln)
    except Exception:
        return None
    return ("end", e.get("res"), e.get("kind"), e.get("msg", "")[:60], hash(ln))


def req_campaign(ctx, fams, rfams=(), consistent=True):
    """whole-request campaign: TLC-generated cases (Gen_Req) and harness-proposed ones, judged by Trace_Req"""
    for item in fams:
        fam, bound = item[0], item[1]
        done = ctx.__dict__.setdefault("fams_done", set())
        if (fam, bound) in done:
            continue
        done.add((fam, bound))
        inv = "Emit\nINVARIANT ConsistentFirst\nINVARIANT SpellingKeepsCanonicalForm"
        cases, n = tlc_gen(ctx, "Gen_Req", {"Family": fam, "Bound": bound}, "%s-%s" % (fam, bound), invariant=inv)
        if len(item) > 2 and item[2] > 1:
            # a third element is a stride: keep every k-th case (in case-id order, so the choice does not depend on the
            # order in which TLC's workers emitted them); the run is then a sample, not the whole family
            lines = sorted((x for x in open(cases).read().split("\n") if x), key=lambda x: json.loads(x)["id"])
            lines = lines[ctx.seed % item[2]:: item[2]]
            with open(cases, "w") as w:
                w.write("\n".join(lines) + "\n")
            ctx.campaigns[-1].update({"cases": len(lines), "exhaustive": False, "stride": item[2]})
            ctx.exhaustive = False
        tr = hrun(ctx, cases, fam)
        validate_req(ctx, tr, fam, cases)


def logical_campaign(ctx, n):
    """campaign R for whole requests: the harness proposes seeded logical requests (all byte values the http crate
    admits, random tampering / respelling recipe), TLC signs them with the reference signer, the library validates."""
    d = ctx.sub("rgen-logical")
    lg = os.path.join(d, "logical.ndjson")
    rc, o = sh([CONFORM, "gen", "logical", str(ctx.seed), str(n), lg], timeout=600)
    if rc != 0:
        raise ToolError("harness gen failed: " + o[-300:])
    cases, k = tlc_gen(ctx, "Gen_Req", {"Family": "logical", "Bound": 0}, "R:logical", env={"LOGICAL": lg})
    ctx.exhaustive = False
    ctx.campaigns[-1].update({"campaign": "R", "seed": ctx.seed, "exhaustive": False})
    tr = hrun(ctx, cases, "R:logical")
    validate_req(ctx, tr, "R:logical", cases)


# Families that are small and whose cases combine features (a header with a parameter, an option with a carrier, two
# occurrences of one input, odd clocks, odd providers). All whole-request properties are judged by the same oracle
# (Trace_Req), and seven waves of seeded changes showed that a change written against one property is often exposed
# only by a family that had been filed under another: so every whole-request check also runs this shared corpus
# (about 3 000 cases; families a check has already run are skipped).
CORE = [("dup", 0), ("reqfold", 0), ("foldmethod", 0), ("manyparams", 0), ("expires", 0), ("window_frac", 0),
        ("midnight", 0), ("scope", 0), ("akid", 0), ("ioerr", 0), ("zerokey", 0), ("spell", 0), ("s3hash", 0),
        ("fold", 3), ("forever", 0), ("adapter", 0)]


def core_campaign(ctx):
    req_campaign(ctx, CORE)
    suite_campaign(ctx)


def suite_campaign(ctx, only=None):
    """the repository's copies of the AWS SigV4 test suite as wire requests with AWS-computed signatures: the
    specification reads each (nothing is signed here), the library validates it with folding on and off and both
    provider kinds, Trace_Req judges the trace; then, independently of the specification, every suite request that
    reached the library must have been accepted when run as the suite intends (folding on, as the crate's own suite
    runner does) and its canonical request / string to sign must be the bytes of AWS's .creq / .sts files."""
    import awssuite
    if ctx.__dict__.get("suite_done") and not only:
        return
    if not only:
        ctx.suite_done = True
    d = ctx.sub("suite")
    wf = os.path.join(d, "wires.ndjson")
    items = awssuite.write_wires(wf)
    if not items:
        ctx.notes.append("suite: no src/aws-sig-v4-test-suite directory in the tree; corpus skipped")
        return
    cases, k = tlc_gen(ctx, "Gen_Req", {"Family": "suite", "Bound": 0}, "suite", env={"WIRES": wf})
    tr = hrun(ctx, cases, "suite")
    validate_req(ctx, tr, "suite", cases)
    # --- the external reference
    groups, cur = [], None
    for ln in open(tr):
        e = json.loads(ln)
        if e.get("ev") == "Begin":
            cur = [e]
            groups.append(cur)
        elif e.get("ev") == "Inadm":
            cur = None                  # the http crate would not represent this request: it never reached the library
        elif cur is not None:
            cur.append(e)
    reached = accepted = compared = 0
    for g in groups:
        cid = tuple(g[0]["id"])
        i, fold = cid[1] - 1, cid[2] == 2
        name, _, creq, sts = items[i]
        if not fold:
            continue
        end = next((e for e in g if e.get("ev") == "End"), None)
        if end is None:
            continue
        reached += 1
        if name in awssuite.INCOMPLETE or (only and not re.search(only, name)):
            continue
        if end.get("res") != "ok":
            ctx.violation(g, "AWS test-suite request %s carries AWS's own signature but was refused: %s %s"
                          % (name, end.get("kind"), end.get("msg", "")[:200]))
            continue
        accepted += 1
        for ev, key, ref in (("StageAuth", "creq", creq), ("StageSts", "sts", sts)):
            st = next((e for e in g if e.get("ev") == ev), None)
            if st is not None and ref is not None and key in st:
                compared += 1
                if bytes(st[key]) != ref:
                    ctx.violation(g, "AWS test-suite request %s: %s differs from AWS's .%s file" % (name, key, key))
    log("  suite: %d requests reached the library with folding on, %d accepted as AWS signed them, %d reference files compared"
        % (reached, accepted, compared))
    ctx.campaigns[-1].update({"suite_reached": reached, "suite_accepted": accepted, "suite_reference_files_compared": compared})


def validate_req(ctx, tr, label, cases):
    nv0 = len(ctx.violations)
    validate(ctx, "Trace_Req", tr, label, group="begin", chunk=1200, distinct_key=req_key)
    # second pass for rejected cases: are they (exactly) a listed known finding?
    # (done inside vp.validate via kf passes)


def pipeline_mc(ctx, quick, history=False):
    """the pipeline machine's invariants; histories sharing one provider only where the property is about them"""
    mc(ctx, "SigV4", "MC_SigV4_pairs.cfg", label="pairs")
    if not quick:
        mc(ctx, "SigV4", "MC_SigV4_full.cfg", label="full")
    if history:
        mc(ctx, "SigV4", "MC_SigV4_hist2.cfg" if quick else "MC_SigV4_hist.cfg", label="history")
    for inv in ("NeverOk", "NeverProviderErr", "NeverScopeErr"):
        mc(ctx, "SigV4", "MC_SigV4_%s.cfg" % inv, expect_violation=inv, label="reach-" + inv)


def C13(ctx):
    q = ctx.quick
    pipeline_mc(ctx, q)
    mc(ctx, "SigV4", "MC_SigV4_bug_scope_before_window.cfg", expect_violation="Precedence", label="neg-scope-before-window")
    fn_campaign(ctx, [("errtable", 0), ("foldsize", 0)], [])
    req_campaign(ctx, [("defects", 2 if q else 14), ("scripts", 1 if q else 0), ("degenerate", 0), ("akid", 0),
                       ("reqfold", 0), ("ioerr", 0), ("spell", 0), ("dup", 0), ("cfgmix", 0, 13 if q else 1)])
    core_campaign(ctx)
    return dict(
        rule="MC: SigV4.tla Precedence/Taxonomy over every subset of simultaneous defects (%s) x 4 carriers x provider "
             "scripts; E: one wire request per (defect subset with <= %d defects, carrier, 3 witnesses per rule), rendered "
             "by the reference signer; TLC asserts that Request!Q reports the minimum injected defect (ConsistentFirst) "
             "and validates the library's trace: kind, code, status must be those of the earliest failing rule. "
             "distinct = distinct (case, outcome)." % ("pairs" if q else "all 2^14", 2 if q else 14),
        assumptions=["unrealisable combinations (unparsable date + expired) are reduced to their realisable part"])


def C14(ctx):
    q = ctx.quick
    pipeline_mc(ctx, q, history=True)
    mc(ctx, "SigV4", "MC_SigV4_live.cfg", label="liveness")
    for bug, inv in (("call_before_rules", "ProviderLast"), ("retry_on_error", "ProviderOnce"),
                     ("accept_on_provider_error", "OkNeedsAnswer"), ("skip_ready", "CallOnlyWhenReady")):
        mc(ctx, "SigV4", "MC_SigV4_bug_%s.cfg" % bug, expect_violation=inv, label="neg-" + bug)
    req_campaign(ctx, [("scripts", 0), ("defects", 1), ("forever", 0), ("zerokey", 0), ("ioerr", 0), ("akid", 0), ("adapter", 0), ("dup", 0)])
    core_campaign(ctx)
    return dict(
        rule="MC: provider process with delayed readiness / delayed answer / SignatureError / foreign error scripts, "
             "ProviderOnce, ProviderLast, CallOnlyWhenReady, CallsExact, OkNeedsAnswer, HistoryFree over histories of "
             "validations sharing one provider, termination under weak fairness. E: 1620 provider scripts x defect "
             "singletons and every single-defect request; the instrumented provider's PollReady/Call/PollFuture events "
             "are SigV4's provider actions in Trace_Req (order, multiplicity, arguments, error pass-through).",
        assumptions=["Pending counts up to 3 per phase in replay; the model explores 0..MaxPending"])


def C01(ctx):
    q = ctx.quick
    pipeline_mc(ctx, q)
    mb = 0 if q else 1
    req_campaign(ctx, [("sigmut", 0), ("mut_struct", 0), ("mut_key", 0), ("mut_body", mb), ("mut_uri", mb), ("mut_hdr", mb),
                       ("s3hash", 0), ("zerokey", 0), ("fold", 1), ("foldmethod", 0), ("dup", 0)]
                 + ([] if q else [("base", 1)]))
    logical_campaign(ctx, 400 if q else 20000)
    core_campaign(ctx)
    return dict(
        rule="MC: OkSound on SigV4.tla. E: every one of the 64 hex digits flipped, upper-casing, truncation, extension, "
             "empty signature on both carriers; valid base requests; single-component mutations of validly signed "
             "requests applied after signing. TLC decides acceptance by term equality: the presented signature is good "
             "iff it is the harness-evaluated HMAC of exactly the specification's string-to-sign for the request as "
             "received (oracle table wired in Trace_Req!SigGood).",
        assumptions=["SHA-256/HMAC-SHA256 collision-freedom (Dolev-Yao reading of rule 16)"])


def C02(ctx):
    q = ctx.quick
    pipeline_mc(ctx, q)
    req_campaign(ctx, [("spell", 0), ("base", 0 if q else 1), ("midnight", 0), ("window", 0 if q else 1), ("fold", 1),
                       ("s3hash", 0), ("dup", 0), ("manyparams", 0), ("expires", 0), ("cfgmix", 0, 13 if q else 1)])
    suite_campaign(ctx)
    logical_campaign(ctx, 400 if q else 20000)
    core_campaign(ctx)
    return dict(
        rule="MC: Complete on SigV4.tla; the spelling law (an admissible respelling leaves canonical request, string-to-sign "
             "prefix, payload, access key and token unchanged) is checked by TLC on Request!Q for every generated case. "
             "E: 3 rich logical requests x 12 spelling recipes (hex case, needless escapes in path and query, %20 vs +, "
             "parameter order, '&&', header-name case, redundant spaces, header arrival order, HTTP version, all combined) "
             "x both carriers x server clock at -15 min / 0 / +15 min, and a grid of valid requests (methods, paths, "
             "queries with prefix-related and repeated names, header sets, bodies, token, S3 mode) signed by the "
             "reference signer (Wire.tla): each must be accepted.",
        assumptions=["literal '+' in a path is the known finding D7 (reported by C09; such paths are generated only there)"])


def C03(ctx):
    q = ctx.quick
    pipeline_mc(ctx, q)
    req_campaign(ctx, [("scope", 0), ("midnight", 0), ("akid", 0), ("dup", 0), ("leak_scope", 0)])
    core_campaign(ctx)
    return dict(
        rule="E: 31 credential scopes (arities 0..7 parts, region/service prefix, suffix, case variant, empty, extra char, "
             "non-ASCII, swapped, terminator and date near-misses) x 3 server configurations (incl. region a prefix of the "
             "service) x both carriers, each SIGNED WITH THE KEY OF THE SCOPE IT NAMES, and 11 timestamps around midnight "
             "UTC / with offsets that move the UTC date. Trace_Req requires 400 for arity, 403 for any other mismatch, and "
             "that the provider is asked for exactly (access key, token, UTC date, server region, server service).",
        assumptions=[])


def C04(ctx):
    q = ctx.quick
    pipeline_mc(ctx, q)
    # unbounded integers: triple comparison = total-nanosecond comparison; AddSec normalises; the inclusive window on
    # triples is the inclusive window on nanoseconds (Apalache / SMT)
    apalache(ctx, "CivilLemma", "Lemmas")
    fn_campaign(ctx, [("ts_field", 0), ("ts_seps", 0)], [])     # the textual forms themselves (hour 24, offsets, ...)
    req_campaign(ctx, [("window", 0 if q else 1), ("window_frac", 0), ("expires", 0), ("midnight", 0), ("dup", 0), ("leak_window", 0)])
    core_campaign(ctx)
    return dict(
        rule="E: request instants at every whole-second offset %s from the server time plus 1 ns and 0.5 s either side of "
             "both bounds, rendered in 5 textual forms (basic Z, extended Z, +05:30, -0245, 9-digit fraction), both "
             "carriers, %s; credential date = UTC date of the instant so that only the window can refuse. Trace_Req: accept "
             "iff now-900s <= t <= now+900s on instant triples (Civil!Fresh), else expired / not-yet-current 403 with "
             "zero provider calls." % ("in +-[880, 920] s" if q else "in [-1200, 1200] s",
                                       "one server instant" if q else "6 server instants (leap day, year end, .5 s)"),
        assumptions=[])


def C05(ctx):
    q = ctx.quick
    pipeline_mc(ctx, q)
    fn_campaign(ctx, [("vreqs", 3)], [])
    req_campaign(ctx, [("reqs", 0 if q else 2), ("reqfold", 0), ("defects", 1)])
    core_campaign(ctx)
    return dict(
        rule="E: every combination of always-required {content-type, x-req}, conditionally required {etag, x-opt} and "
             "prefix {x-amz, x-a} sets (64) in lower / UPPER / mIxEd case through the slice, vec(new) and vec(add_*) "
             "implementations, request header sets with several prefix-matching names, and signed lists that include all, "
             "none or all-but-one%s of the request's headers; every request is correctly signed over what it lists, so "
             "only the requirement check can refuse it." % ("" if q else " (thorough: every subset)"),
        assumptions=["declared names are ASCII"])


def C11(ctx):
    q = ctx.quick
    mc(ctx, "MC_Headers", law_cfg("HvalLaws", "hval", 4 if q else 6), label="HvalLaws")
    fn_campaign(ctx, [("hval", 4 if q else 6)], [("hval", 3000 if q else 100000)])
    req_campaign(ctx, [("mut_struct", 0), ("mut_hdr", 0 if q else 1), ("spell", 0), ("reqfold", 0), ("reqs", 0), ("charsets", 0)]
                 + ([] if q else [("base", 1)]))
    suite_campaign(ctx, only=r"header")
    logical_campaign(ctx, 400 if q else 20000)
    core_campaign(ctx)
    return dict(
        rule="MC: NormValue idempotent, no leading/trailing/double space, non-space bytes preserved in order. E (function): "
             "every value over {SP, a, b, ',', HTAB, 0xE9} up to length %d through normalize_header_value. E (end to end): "
             "every byte of every header value of a signed request changed in turn; swapping, dropping, duplicating values "
             "of a signed header; adding, removing, changing unsigned headers; respacing; header-name case; arrival order "
             "across names. TLC decides from the wire which edits leave the canonical request unchanged (accept) and "
             "which do not (refuse)." % (4 if q else 6),
        assumptions=["HTAB is data (the statement speaks of spaces)"])


def C12(ctx):
    q = ctx.quick
    pipeline_mc(ctx, q)
    fn_campaign(ctx, [("foldsize", 0)], [])        # bodies whose folded URI would not fit (arithmetic predicate)
    req_campaign(ctx, ([("fold", 0), ("fold", 1)] if q else [("fold", 1), ("fold", 2)]) + [("s3hash", 0), ("charsets", 0 if q else 1), ("foldmethod", 0)])
    core_campaign(ctx)
    return dict(
        rule="E: URL parameter lists x body parameter lists over names {a, b} x values {1, 2, empty} (incl. the same name in "
             "both) x 13 content types (exact, charset utf-8/UTF8/unicode-1-1-utf-8/foobar/latin1/empty, extra params, "
             "text/plain, json, absent, case variant, multipart) x folding on/off x bodies (valid, invalid UTF-8, bad "
             "escape) x a post-signing body byte flip, both carriers, signed by the reference signer over the merged "
             "query and the empty-body hash when folding applies. Trace_Req checks accept/refuse, InvalidBodyEncoding / "
             "MalformedQueryString, and that the returned URI carries exactly the merged parameters with an empty body.",
        assumptions=["media type in another letter case and known non-UTF-8 charsets: don't-care"])


def C15(ctx):
    q = ctx.quick
    pipeline_mc(ctx, q)
    fn_campaign(ctx, [("foldsize", 0)], [])
    req_campaign(ctx, [("passthru", 0), ("fold", 0), ("reqfold", 0), ("dup", 0), ("cfgmix", 0, 13 if q else 1)] + ([] if q else [("base", 1), ("fold", 1)]))
    logical_campaign(ctx, 400 if q else 20000)
    core_campaign(ctx)
    return dict(
        rule="E: 5 methods (incl. extension methods) x 5 HTTP versions x 5 header multisets (repeats, empty and non-UTF-8 "
             "values) x 3 body types ((), Vec<u8>, Bytes) x bodies x both carriers, with a distinct principal and session "
             "datum per case; folded requests from the C12 family. Trace_Req!RetOk compares method, version, header list, "
             "body and URI byte for byte (folded: empty body, canonical-equal path, exactly the merged parameters) and the "
             "principal / session data with what the provider supplied.",
        assumptions=["whether X-Amz-Signature stays in a folded returned URI is a don't-care"])


def C17(ctx):
    q = ctx.quick
    pipeline_mc(ctx, q)
    fn_campaign(ctx, [("leakfn", 0)], [])
    req_campaign(ctx, [("leak_defects", 1 if q else 2), ("leak_scripts", 0), ("leak_sigmut", 0), ("leak_long", 0), ("leak_cfg", 0),
                       ("leak_midnight", 0), ("leak_window", 0), ("leak_scope", 0)])
    return dict(
        rule="Every validation in the leak families runs with a capturing `log` logger at Trace level; the harness searches "
             "each log record, the Display and Debug text of the returned error, and the Debug text of the canonical "
             "request, extracted parameters and authenticator for the provider's secret, 'AWS4'+secret, kDate, kRegion, "
             "kService, kSigning (for the request's and the server's date) and the signature the server computes, each "
             "raw, hex (both cases), base64 (std/url, with and without padding) and as a Debug byte list, and records the "
             "set of secrets found as the event's taints. Trace_Req!NoLeak: no key material anywhere; the correct "
             "signature of a refused request only in records below debug level. Cases: every single defect (and pairs in "
             "thorough) on both carriers, provider errors, all 68 signature mutations; Debug/Display of all key types, "
             "provider request/response and authenticator response for 8 secrets (Trace_Fn).",
        assumptions=["secrets have >= 20 bytes of entropy, so accidental substring hits are negligible"])


def C07(ctx):
    import concurrent.futures as cf
    q = ctx.quick
    mc(ctx, "CtEq", "MC_CtEq.cfg", label="NonInterference")
    mc(ctx, "CtEq", "MC_CtEq_neg.cfg", expect_violation="NonInterference", label="neg-early-exit")
    cases, n = tlc_gen(ctx, "Gen_Req", {"Family": "ct", "Bound": 0 if q else 1}, "ct")
    lines = [x for x in open(cases).read().split("\n") if x]
    groups = {}
    for ln in lines:
        c = json.loads(ln)
        if q and c.get("nonce") and c["group"][2] != 1:
            continue        # quick: the shaped-signature requests with lower-case guesses only
        groups.setdefault(json.dumps(c["group"]), []).append(c)
    d = os.path.dirname(cases)
    jobs = []
    # one tracer process per slice of a group; every slice starts with the group's reference position so that
    # each process has its own baseline, and the reference digests of the slices must agree with each other too
    nslice = 1 if q else 4
    for g, cs in groups.items():
        ref = [c for c in cs if c["who"] == "ref"]
        rest = [c for c in cs if c["who"] != "ref"]
        for k in range(nslice):
            part = rest[k::nslice]
            if not part:
                continue
            cp = os.path.join(d, "ct-%d-%d.ndjson" % (len(jobs), k))
            with open(cp, "w") as f:
                for c in ref + part:
                    f.write(json.dumps(c) + "\n")
            jobs.append((cp, cp + ".out"))

    def run(job):
        return sh([CONFORM, "ctrace", job[0], job[1]], timeout=3000, env={"RUST_BACKTRACE": "0"})
    t0 = time.time()
    with cf.ThreadPoolExecutor(max_workers=min(len(jobs), max(2, NCPU - 4))) as ex:
        outs = list(ex.map(run, jobs))
    # Each tracer process is its own comparison group: observations are compared with the reference position traced by
    # the SAME process. (Across processes the counts legitimately differ by a few instructions - per-process hash seeds
    # change collision patterns in the header and parameter maps - so a cross-process comparison would be a false alarm.)
    obs = []
    for j, ((rc, o), job) in enumerate(zip(outs, jobs)):
        if rc != 0:
            raise ToolError("ptrace tracer failed: " + o[-400:])
        first = True
        for ln in open(job[1]):
            e = json.loads(ln)
            if e["who"] == "ref" and not first:
                continue
            first = False
            e["id"] = [e["id"], j]
            obs.append(e)
    obs.sort(key=lambda e: (json.dumps(e["id"]), 0 if e["who"] == "ref" else 1))
    dt = os.path.join(d, "ct.ndjson")
    with open(dt, "w") as w:
        for e in obs:
            w.write(json.dumps(e) + "\n")
    log("  ptrace %d traces in %d tracer processes  %.1fs  (in-image steps per validation: %s)" %
        (len(obs), len(jobs), time.time() - t0, sorted({e["steps"] for e in obs})[:4]))
    validate(ctx, "Trace_Det", dt, "instruction-traces", group="key", chunk=20000,
             distinct_key=lambda ln: (json.loads(ln)["who"], json.dumps(json.loads(ln)["id"])))
    ctx.exhaustive = not q
    return dict(
        rule="MC: CtEq.tla self-composition - the constant-time comparator satisfies NonInterference (equal program-point "
             "traces for any two wrong guesses of the right length), the early-exit one violates it (negative control). "
             "Implementation: for each (request, key) group TLC generates a validly signed request and the same request "
             "with the signature's hex digit at position p replaced by another digit of the same class, p in %s; a forked "
             "child builds the request, stops, and is single-stepped under ptrace through sigv4_validate_request only; "
             "instruction addresses inside the harness executable's text mapping are counted and hashed (FNV-1a). The "
             "binary supplies byte-wise early-exit memcmp/bcmp. Trace_Det requires every position's (count, digest) to "
             "equal the reference position's as traced by the same tracer process; position 0 is traced twice as a control."
             % ("{0,1,2,15,31,32,47,62,63}" if q else "0..63, 6 requests x 2 keys"),
        assumptions=["in-image instruction stream only (vdso/libc/ld.so excluded); says nothing about micro-architectural timing",
                     "a position whose trace differs from the reference is re-traced; only a difference that reproduces is reported"])


def C08(ctx):
    q = ctx.quick
    fn_campaign(ctx, [("foldsize", 0), ("errtable", 0), ("builders", 0), ("key_caps", 0), ("vreqs", 2 if q else 3),
                      ("ts_affix", 0), ("path_trunc", 0), ("query_trunc", 0), ("helper_bytes", 0), ("helper_trim", 3 if q else 5)],
                [("ts", 3000 if q else 100000), ("key", 2000 if q else 50000), ("path", 3000 if q else 100000),
                 ("query", 3000 if q else 100000), ("hval", 2000 if q else 50000)])
    req_campaign(ctx, [("charsets", 0), ("degenerate", 0), ("defects", 1 if q else 2), ("leak_long", 0), ("leak_window", 0), ("leak_scope", 0), ("cfgmix", 0, 13 if q else 1)])
    cases, n = hgen(ctx, "reqfuzz", 3000 if q else 200000)
    tr = hrun(ctx, cases, "R:reqfuzz")
    validate_req(ctx, tr, "R:reqfuzz", cases)
    return dict(
        rule="A panic (caught at the harness boundary and logged as data) or a missing End event matches no action of any "
             "trace specification. E: form bodies whose folded URI is 65530..65537 bytes, 70 000 and 1 MiB; every charset "
             "label known to the encoding crate and unknown ones x 4 body classes; secrets x capacities; every "
             "SignatureError variant through error_code/http_status/Display/Debug/source/From; builders with required "
             "fields missing; requirement-container operation sequences; degenerate URIs and Authorization headers; "
             "truncated escapes; timestamp affixes; the byte-level helpers (trim_ascii*, u8_to_upper_hex, "
             "is_rfc3986_unreserved, latin1_to_string) on every byte and every string of <= 3 (5) bytes over the white-space "
             "candidates. R: seeded byte-level requests biased towards the tokens of "
             "fuzz/dict.txt, random timestamps (incl. non-ASCII digits), secrets, paths, queries, header values.",
        assumptions=["operations documented as panicking on malformed escapes (unescape_uri_encoding) and "
                     "get_string_to_sign/get_signing_key without prevalidate are excepted, as the property states"])


def det_events_from_trace(tr, who):
    """(id, proj) of every case of a validated request trace, as Trace_Det events"""
    out = []
    cur = None
    for ln in open(tr):
        if '"ev":"Begin"' in ln:
            cur = json.loads(ln)["id"]
        elif '"ev":"End"' in ln and cur is not None:
            e = json.loads(ln)
            out.append({"op": "det", "id": cur, "who": who, "res": e.get("res"), "proj": e.get("proj", "")})
            cur = None
    return out


def C18(ctx):
    import hashlib
    q = ctx.quick
    mc(ctx, "MC_Reentrancy", "MC_Reentrancy.cfg", label="reentrancy")
    mc(ctx, "MC_Reentrancy", "MC_Reentrancy_neg.cfg", expect_violation="Deterministic", label="neg-unsorted-render")
    mc(ctx, "SigV4", "MC_SigV4_hist2.cfg" if q else "MC_SigV4_hist.cfg", label="history")
    # corpus: valid requests of many shapes, every single defect, repeated inputs, folded forms
    corpus = os.path.join(ctx.sub("corpus"), "cases.ndjson")
    with open(corpus, "w") as w:
        for fam, bound in [("base", 0 if q else 1), ("defects", 1), ("dup", 0), ("fold", 1), ("reqs", 0), ("leak_long", 0),
                           ("reqfold", 0), ("midnight", 0), ("window_frac", 0)]:
            cases, n = tlc_gen(ctx, "Gen_Req", {"Family": fam, "Bound": bound}, "%s-%s" % (fam, bound))
            lines = [x for x in open(cases).read().split("\n") if x]
            if q and len(lines) > 400:
                lines = lines[:: len(lines) // 400 + 1]
            w.write("\n".join(lines) + "\n")
    ncases = sum(1 for _ in open(corpus))
    tr = hrun(ctx, corpus, "reference")
    validate_req(ctx, tr, "reference", corpus)             # "same" also means "right"
    obs = det_events_from_trace(tr, "ref")
    # several validations in flight on ONE thread: requests whose provider is not immediately ready / answers late
    # are validated two at a time with their futures polled alternately
    scases, sn = tlc_gen(ctx, "Gen_Req", {"Family": "scripts", "Bound": 0}, "scripts-interleave")
    slines = [x for x in open(scases).read().split("\n") if x and ('"readyIn":0' not in x or '"pendIn":0' not in x)]
    if q:
        slines = slines[:: max(1, len(slines) // 300)]
    # pairs are polled alternately (A, B, A, B, ...). Pair a VALID request whose provider makes it wait (A) with a
    # different request (other carrier) that also gets as far as the key lookup (B: valid, or only its signature
    # wrong), so that B runs while A is suspended; then the remaining cases two by two.
    def idx_of(x):
        return json.loads(x)["id"]
    A = [x for x in slines if idx_of(x)[6] == 1]
    B = [x for x in slines if idx_of(x)[6] in (1, 3, 6)]
    pairs, used = [], set()
    for a in A:
        b = next((y for y in B if y not in used and y != a and idx_of(y)[7] != idx_of(a)[7]), None)
        if b is None:
            break
        used.add(a)
        used.add(b)
        pairs += [a, b]
    slines = pairs + [x for x in slines if x not in used]
    with open(scases, "w") as w:
        w.write("\n".join(slines) + "\n")
    str_ = hrun(ctx, scases, "reference-pending")
    validate_req(ctx, str_, "reference-pending", scases)
    obs += det_events_from_trace(str_, "ref")
    iout = os.path.join(os.path.dirname(scases), "interleaved.ndjson")
    rc, o = sh([CONFORM, "interleave", scases, iout], timeout=1800, env={"RUST_BACKTRACE": "0"})
    if rc != 0:
        ctx.violation([{"run": "interleave"}], {"module": "Trace_Det", "abnormal_exit": rc, "tail": o[-400:]})
    else:
        for ln in open(iout):
            obs.append(json.loads(ln))
        log("  det interleaved futures on one thread: %s" % o.strip())
    d = os.path.dirname(corpus)
    runs = []
    plans = [(2, 3), (8, 3)] if q else [(2, 20), (4, 20), (8, 20), (16, 20)]
    nproc = 4 if q else 32
    for i, (nt, rounds) in enumerate(plans):
        runs.append((nt, rounds, ctx.seed + i))
    for k in range(nproc):
        runs.append((1, 1, ctx.seed + 100 + k))
    # the ambient log level is not an input either: two more processes render every log record (Trace level) and drop it
    runs.append((1, 1, -1))
    runs.append((4, 2, -2))
    t0 = time.time()
    for j, (nt, rounds, seed) in enumerate(runs):
        out = os.path.join(d, "det-%d.ndjson" % j)
        env = {"RUST_BACKTRACE": "0"}
        if seed < 0:
            env["VERIF_LOG"] = "trace"
            seed = ctx.seed + 200 - seed
        rc, o = sh([CONFORM, "threads", corpus, out, str(nt), str(rounds), str(seed)], timeout=3600, env=env)
        if rc != 0:
            # abnormal termination of a concurrent run is a finding, not a tool error
            ctx.violation([{"run": [nt, rounds, seed]}], {"module": "Trace_Det", "abnormal_exit": rc, "tail": o[-400:]})
            continue
        for ln in open(out):
            obs.append(json.loads(ln))
        os.remove(out)
    log("  det %d fresh processes (threads x rounds: %s, %d single-thread processes)  %d observations  %.1fs" %
        (len(runs), plans, nproc, len(obs), time.time() - t0))
    obs.sort(key=lambda e: (json.dumps(e["id"]), 0 if e["who"] == "ref" else 1))
    dt = os.path.join(d, "det.ndjson")
    with open(dt, "w") as w:
        for e in obs:
            w.write(json.dumps(e) + "\n")
    validate(ctx, "Trace_Det", dt, "determinism", group="key", chunk=20000,
             distinct_key=lambda ln: hashlib.md5(ln.encode()).hexdigest()[:12] if '"who": "ref"' in ln else None)
    ctx.exhaustive = False
    return dict(
        rule="MC: Reentrancy.tla (3 threads x 2 validations x 4 request kinds x 3 hash seeds over the lazily initialised "
             "globals with one-time initialisation): no deadlock, termination under weak fairness, outcome = Pure(request) "
             "and seed-independent rendering, with a negative control (rendering in map iteration order must violate it); "
             "HistoryFree on SigV4.tla. Implementation: a corpus of %d cases (valid requests, every single defect, repeated "
             "inputs, folded forms, requirement sets) is validated once by Trace_Req (reference), then re-validated in %d "
             "fresh processes: %s threads x rounds released by a barrier onto shuffled orders (first touch of the lazy "
             "statics is raced) and %d single-thread processes (different hash seeds). Trace_Det requires every "
             "observation's outcome digest (kind/code/status, returned request, principal, provider interactions; not "
             "message text) to equal the reference's." % (ncases, len(runs), plans, nproc),
        assumptions=["interleavings are sampled, not controlled: the shared state is std::sync::Once inside lazy_static",
                     "which header a prefix-requirement message names depends on map order; messages are not compared"])


def C19(ctx):
    q = ctx.quick
    req_campaign(ctx, [("dup", 0), ("manyparams", 0)])
    core_campaign(ctx)
    return dict(
        rule="E: 60 requests in which one authentication input is repeated with differing values, in both orders, built "
             "so that exactly one selection makes the signature valid: Authorization header x2 (AWS4 + Basic / AWS4 + "
             "AWS4), Credential / SignedHeaders / Signature repeated inside it, each X-Amz-* query parameter repeated, "
             "X-Amz-Date x2, Date + X-Amz-Date in both arrival orders, token header x2 / token parameter x2, both "
             "carriers at once. Trace_Req reads the selection rules from Request!Q and checks acceptance and the access "
             "key / token the provider sees.",
        assumptions=[])


PROPS = {"C01": C01, "C02": C02, "C03": C03, "C04": C04, "C05": C05, "C07": C07, "C08": C08, "C11": C11, "C12": C12, "C15": C15, "C17": C17, "C18": C18, "C19": C19, "C06": C06, "C09": C09, "C10": C10, "C13": C13, "C14": C14, "C16": C16}
