#!/usr/bin/env python3
"""Regenerate MANIFEST.json from the table below (single place to edit)."""
import json, os
ROOT = os.path.dirname(os.path.dirname(os.path.abspath(__file__)))

CLAIMED = {
 "C09": ("UriCanon.tla reference normal form; TLC-enumerated + random paths replayed; TLC trace validation",
         "Exhaustive at small scope (every byte in every spelling, every %xy, every path of <=5 segments over the 15-symbol "
         "alphabet, both modes) plus seeded random paths; the reference's laws (normal form, idempotence, spelling-"
         "insensitivity, exact failure set) are model-checked on the specification itself; every library output is judged by "
         "TLC against the reference evaluated on the recorded input.", "5 C09"),
 "C10": ("UriCanon.tla canonical query reference; TLC-enumerated parameter lists + random queries; TLC trace validation",
         "Exhaustive over parameter lists of <=3 components from an 80-component alphabet with prefix-related names (all "
         "orders as distinct inputs), '&&' variants and every byte in 5 spellings, plus seeded random queries; permutation-, "
         "respelling-, '&&'-invariance, sortedness and multiset preservation are model-checked on the specification, with a "
         "negative control (rendered-string sort must violate them).", "5 C10"),
 "C06": ("KeyTerms/KeyChain.tla symbolic HMAC chain; method-path machine model-checked; derivations replayed; TLC trace validation of oracle wiring",
         "Path-independence of all 10 public derivation methods model-checked on symbolic terms; from_str acceptance for 13 "
         "lengths x 8 capacities; derivation for 8 secrets x 18 dates x 36 region/service pairs through every method path plus "
         "random inputs; TLC checks that what is hashed is exactly the SigV4 chain and that every library output equals the "
         "harness-evaluated term.", "5 C06"),
 "C16": ("Iso8601.tla/Civil.tla reference parser; TLC-enumerated field sweeps + random mutated timestamps; TLC trace validation",
         "Exhaustive field sweeps (each 2-digit field 00..99, calendars of five years, all offsets, fractions 0..12, all "
         "separator combinations, affixes) and random mutated timestamps go through the library's authenticator factory; "
         "TLC re-parses each recorded string and requires the exact UTC instant, compact UTC line and scope date, or the "
         "ISO-8601 error, with stated don't-cares.", "5 C16"),
 "C01": ("SigV4.tla OkSound + Request.tla byte-level reading; TLC-signed requests mutated after signing; TLC trace validation with symbolic crypto",
         "Every hex digit of the signature flipped, length/case changes, and every byte of URI, header values and body of a "
         "validly signed request changed in turn, plus structural edits and key changes, on both carriers; acceptance is "
         "decided by TLC from the wire bytes: the presented signature must be the harness-evaluated HMAC of exactly the "
         "specification's string-to-sign (Dolev-Yao reading), every exposed stage (canonical request, string-to-sign) must "
         "equal the specification's bytes.", "5 C01"),
 "C02": ("reference signer Wire.tla + spelling law on Request!Q; TLC-enumerated respellings replayed; TLC trace validation",
         "Requests signed by the specification's own signer in 12 wire spellings x 3 logical requests x both carriers x clock "
         "at the window edges (incl. absolute-form targets), a grid of valid request shapes, the full product of "
         "configuration switches (sampled in quick) and the repository's AWS test-suite requests (AWS-computed signatures, "
         "AWS's own .creq/.sts files as an oracle independent of the specification) must all be accepted; the spelling law "
         "is model-checked on the specification for every generated case.", "5 C02"),
 "C03": ("Request.tla rules 12-13 + SigV4.tla ProviderArgs; foreign-scope-signed requests replayed; TLC trace validation",
         "31 credential scopes x 3 server configurations x both carriers, each signed with the key of the scope it names, and "
         "timestamps around midnight UTC; TLC checks kind/status and the exact arguments the provider receives.", "5 C03"),
 "C04": ("Civil.tla instant arithmetic (Fresh/Expired/TooNew); every whole-second offset and ns probes replayed; TLC trace validation",
         "Every whole-second offset around both bounds (quick +-[880,920] s, thorough [-1200,1200] s x 6 server instants), "
         "1 ns and 0.5 s probes, 7 textual renderings, server clocks with fractional seconds, X-Amz-Expires values that must "
         "not move the window, both carriers; accept iff inside the inclusive window, otherwise expired / not-yet-current "
         "with zero provider calls. An Apalache lemma ties the triple comparison to nanosecond arithmetic (thorough).", "5 C04"),
 "C05": ("Request!SignedOk requirements predicate; requirement sets x header sets x signed lists replayed; TLC trace validation",
         "All 64 requirement-set combinations in three letter cases through the three container construction routes, with "
         "correctly signed requests that omit required headers from the list; container operation sequences are checked "
         "against a case-insensitive set model (C08 run).", "5 C05"),
 "C07": ("CtEq.tla 2-safety (self-composition) model-checked; ptrace instruction-address traces of the real validation judged by Trace_Det",
         "The comparator model satisfies non-interference (and the early-exit control violates it). On the implementation, a "
         "forked child builds a signed request whose signature first differs at position p (same character class), stops, "
         "and is single-stepped under ptrace through sigv4_validate_request; in-image instruction count and address digest "
         "must be identical for every p (quick 9 positions + control, thorough all 64 x 6 requests x 2 keys), for lower-case "
         "guesses, upper-case guesses and with a Trace-level logger installed; some base requests carry a nonce chosen so "
         "that the correct signature has a special shape (leading 0, 00, trailing 0).", "5 C07"),
 "C08": ("totality: a panic event matches no action of any trace specification; size ladder, charset labels, degenerate inputs, seeded fuzz",
         "Panics are caught at the harness boundary and logged as data; no trace specification has an action for them. "
         "Covers the URI-length ladder around 65534, every charset label, secrets x capacities, the error table, builders, "
         "degenerate URIs/headers and seeded byte-level requests (which also get the full Trace_Req oracle).", "5 C08"),
 "C11": ("Headers.tla NormValue/HeaderBlock; header edits after signing replayed; TLC trace validation",
         "Header-value normal form laws model-checked; every value over a 6-symbol alphabet through normalize_header_value; "
         "every byte of every header value of a signed request changed, values swapped/dropped/duplicated, unsigned headers "
         "added/removed/changed, respacing, name case and arrival order: TLC decides from the wire which edits must be "
         "accepted and which refused.", "5 C11"),
 "C12": ("Request.tla form folding (content type, charset, UTF-8, merge); URL x body parameter lists replayed; TLC trace validation",
         "URL and body parameter lists (incl. the same name in both) x 13 content types x folding on/off x body validity x a "
         "post-signing body flip, both carriers; TLC checks accept/refuse, error kind, and that the returned URI carries "
         "exactly the merged parameters.", "5 C12"),
 "C13": ("SigV4.tla Precedence/Taxonomy model-checked over all defect subsets; one wire request per subset replayed; TLC trace validation",
         "Precedence and taxonomy are invariants of the pipeline machine checked for every subset of simultaneous defects; "
         "each subset (pairs in quick, all 2^14 in thorough) is rendered on the wire on both carriers with 3 witnesses per "
         "rule, TLC asserts the byte-level reading reports the minimum defect and validates kind/code/status returned by "
         "the library.", "5 C13"),
 "C14": ("SigV4.tla provider process (ProviderOnce/Last, CallOnlyWhenReady, CallsExact, liveness); scripted provider traces validated by TLC",
         "Provider behaviours (delayed readiness, delayed answer, SignatureError kinds, foreign errors) as a process in the "
         "model with histories sharing one provider; 1620 scripts x defects replayed with an instrumented provider whose "
         "PollReady/Call/PollFuture events are the model's provider actions.", "5 C14"),
 "C15": ("Trace_Req!RetOk pass-through predicate; methods x versions x header multisets x body types replayed; TLC trace validation",
         "Returned method, version, header list, body and URI compared byte for byte with what was submitted (folded: empty "
         "body and exactly the merged parameters), principal and session data with what the provider supplied.", "5 C15"),
 "C17": ("taint events + Trace_Req!NoLeak; capturing logger and Debug/Display renders scanned for key material; TLC trace validation",
         "Log records at every level, error Display/Debug and Debug of intermediate public values are scanned for the secret, "
         "all derived keys and the server-computed signature in raw/hex/base64 forms; TLC applies NoLeak per event.", "5 C17"),
 "C18": ("Reentrancy.tla model-checked (Once-guarded globals, hash seeds); reference-validated corpus re-run across threads and processes; Trace_Det",
         "Deadlock-freedom, termination and seed/interleaving independence model-checked; a corpus validated by Trace_Req is "
         "re-validated from 2-16 threads released together and in fresh processes, every outcome digest must equal the "
         "reference's.", "5 C18"),
 "C19": ("Request.tla selection rules (first header, last-wins inside, first query value); duplicated-input requests replayed; TLC trace validation",
         "60 requests with one authentication input duplicated (both orders, escaped parameter names, header vs query "
         "parameter, URL vs folded body, two Content-Type headers), signed so that exactly one selection is valid.", "5 C19"),
}

NOT_YET = {}

def main():
    checks = []
    for pid in sorted(CLAIMED):
        tech, text, ref = CLAIMED[pid]
        checks.append({
            "property_id": pid,
            "quick_cmd": "bin/check %s quick" % pid,
            "thorough_cmd": "bin/check %s thorough" % pid,
            "evidence_file": "/verif/evidence/%s.json" % pid,
            "replay_cmd_template": "bin/check %s --replay {path}" % pid,
            "engine": "tlc+conform",
            "level_claimed": {"category": "model_checking", "text": text, "design_ref": "DESIGN.md section " + ref},
            "level_note": "Trusted: TLC; the harness (request builder, executor, own SHA-256/HMAC); http/bytes/tower/chrono "
                          "as environment; SHA-256/HMAC collision-freedom. Bounded scopes as stated; not a proof.",
            "technique": tech,
        })
    props = [json.loads(l)["id"] for l in open(os.path.join(ROOT, "properties.jsonl"))]
    na = [{"property_id": p, "reason": NOT_YET.get(p, "check not built yet in this session; see DESIGN.md section 11 (build order)")}
          for p in props if p not in CLAIMED]
    man = {
        "version": 1,
        "setup_cmd": "cd /verif/harness && cargo build --release --offline && cd /verif/spec && for f in *.tla; do tla-sany $f >/dev/null || exit 1; done",
        "hooks": {
            "guard": "sigv4_verif",
            "enable": "no source hooks are needed: the harness builds /repo as a path dependency with the crate's own "
                      "cargo feature `unstable`, supplies the key provider and a capturing logger itself",
            "baseline_off_cmd": "cd /repo && cargo test --workspace --no-fail-fast --offline --lib",
            "source_commits": [],
            "add_only": True,
        },
        "engines": [{"name": "tlc+conform", "path": "/verif/bin/check",
                     "serves_properties": sorted(CLAIMED),
                     "kind_free_text": "TLA+ specification (spec/*.tla) checked by TLC; cases enumerated by TLC or proposed by a "
                                       "seeded generator are executed against the real crate by harness/ (Rust); TLC validates "
                                       "the recorded traces against the specification"}],
        "checks": checks,
        "not_applicable": na,
        "notes": "exit 0 held / 1 VIOLATION with replay / 2 tool error. VERIF_SEED seeds all random choices.",
    }
    json.dump(man, open(os.path.join(ROOT, "MANIFEST.json"), "w"), indent=1)
    print("claimed", len(checks), "not_applicable", len(na))

if __name__ == "__main__":
    main()
