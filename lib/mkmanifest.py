#!/usr/bin/env python3
"""Regenerate MANIFEST.json from the table below (single place to edit)."""
import json, os
ROOT = os.path.dirname(os.path.dirname(os.path.abspath(__file__)))

CLAIMED = {
 "C09": ("UriCanon.tla reference normal form; TLC-enumerated + random paths replayed; TLC trace validation",
         "Exhaustive at small scope (every byte in every spelling, every %xy, every path of <=5 segments over the 15-symbol "
         "alphabet, both modes) plus seeded random paths; the reference's laws (normal form, idempotence, spelling-"
         "insensitivity, exact failure set) are model-checked on the specification itself; every library output is judged by "
         "TLC against the reference evaluated on the recorded input.", "5 C09"),
 "C10": ("UriCanon.tla canonical query reference; TLC-enumerated parameter lists + random queries; TLC trace validation",
         "Exhaustive over parameter lists of <=3 components from an 80-component alphabet with prefix-related names (all "
         "orders as distinct inputs), '&&' variants and every byte in 5 spellings, plus seeded random queries; permutation-, "
         "respelling-, '&&'-invariance, sortedness and multiset preservation are model-checked on the specification, with a "
         "negative control (rendered-string sort must violate them).", "5 C10"),
 "C06": ("KeyTerms/KeyChain.tla symbolic HMAC chain; method-path machine model-checked; derivations replayed; TLC trace validation of oracle wiring",
         "Path-independence of all 10 public derivation methods model-checked on symbolic terms; from_str acceptance for 13 "
         "lengths x 8 capacities; derivation for 8 secrets x 18 dates x 36 region/service pairs through every method path plus "
         "random inputs; TLC checks that what is hashed is exactly the SigV4 chain and that every library output equals the "
         "harness-evaluated term.", "5 C06"),
 "C16": ("Iso8601.tla/Civil.tla reference parser; TLC-enumerated field sweeps + random mutated timestamps; TLC trace validation",
         "Exhaustive field sweeps (each 2-digit field 00..99, calendars of five years, all offsets, fractions 0..12, all "
         "separator combinations, affixes) and random mutated timestamps go through the library's authenticator factory; "
         "TLC re-parses each recorded string and requires the exact UTC instant, compact UTC line and scope date, or the "
         "ISO-8601 error, with stated don't-cares.", "5 C16"),
}

NOT_YET = {}

def main():
    checks = []
    for pid in sorted(CLAIMED):
        tech, text, ref = CLAIMED[pid]
        checks.append({
            "property_id": pid,
            "quick_cmd": "bin/check %s quick" % pid,
            "thorough_cmd": "bin/check %s thorough" % pid,
            "evidence_file": "/verif/evidence/%s.json" % pid,
            "replay_cmd_template": "bin/check %s --replay {path}" % pid,
            "engine": "tlc+conform",
            "level_claimed": {"category": "model_checking", "text": text, "design_ref": "DESIGN.md section " + ref},
            "level_note": "Trusted: TLC; the harness (request builder, executor, own SHA-256/HMAC); http/bytes/tower/chrono "
                          "as environment; SHA-256/HMAC collision-freedom. Bounded scopes as stated; not a proof.",
            "technique": tech,
        })
    props = [json.loads(l)["id"] for l in open(os.path.join(ROOT, "properties.jsonl"))]
    na = [{"property_id": p, "reason": NOT_YET.get(p, "check not built yet in this session; see DESIGN.md section 11 (build order)")}
          for p in props if p not in CLAIMED]
    man = {
        "version": 1,
        "setup_cmd": "cd /verif/harness && cargo build --release --offline && cd /verif/spec && for f in *.tla; do tla-sany $f >/dev/null || exit 1; done",
        "hooks": {
            "guard": "sigv4_verif",
            "enable": "no source hooks are needed: the harness builds /repo as a path dependency with the crate's own "
                      "cargo feature `unstable`, supplies the key provider and a capturing logger itself",
            "baseline_off_cmd": "cd /repo && cargo test --workspace --no-fail-fast --offline --lib",
            "source_commits": [],
            "add_only": True,
        },
        "engines": [{"name": "tlc+conform", "path": "/verif/bin/check",
                     "serves_properties": sorted(CLAIMED),
                     "kind_free_text": "TLA+ specification (spec/*.tla) checked by TLC; cases enumerated by TLC or proposed by a "
                                       "seeded generator are executed against the real crate by harness/ (Rust); TLC validates "
                                       "the recorded traces against the specification"}],
        "checks": checks,
        "not_applicable": na,
        "notes": "exit 0 held / 1 VIOLATION with replay / 2 tool error. VERIF_SEED seeds all random choices.",
    }
    json.dump(man, open(os.path.join(ROOT, "MANIFEST.json"), "w"), indent=1)
    print("claimed", len(checks), "not_applicable", len(na))

if __name__ == "__main__":
    main()
