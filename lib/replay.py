"""bin/check <pid> --replay <file>: re-execute the recorded case against the current /repo tree and
re-validate the fresh trace with TLC. Exit 1 (with a VIOLATION line) iff it is still rejected."""
import json, os
import vp


def run(pid, path, seed):
    rec = json.load(open(path))
    why = rec.get("why") if isinstance(rec.get("why"), dict) else {}
    if why.get("module") == "Trace_Det" or not rec.get("events") or not isinstance(rec["events"][0], dict) \
            or ("ev" not in rec["events"][0] and "op" not in rec["events"][0]):
        # a determinism / timing observation (or an abnormal exit of a concurrent run) is a relation between several
        # executions: it is replayed by running the property's quick check again
        import subprocess, sys
        return subprocess.call([os.path.join(vp.ROOT, "bin", "check"), pid, "quick"])
    ctx = vp.Ctx(pid, "quick", seed)
    vp.build_harness()
    evs = rec["events"]
    d = ctx.sub("replay")
    cases = os.path.join(d, "cases.ndjson")
    first = evs[0]
    with open(cases, "w") as f:
        if first.get("ev") == "Begin" and "case" in first:
            f.write(json.dumps(first["case"]) + "\n")
        elif first.get("ev") == "Begin":
            # the request exactly as the library received it (its signature is literal in it), the configuration and the
            # provider script are all in the Begin event
            env = first["env"]
            leak = any(e.get("ev") in ("Log", "Render") for e in evs)
            f.write(json.dumps({"op": "req", "id": first.get("id", 0), "method": env["method"], "uri": env["uri"],
                                "version": env.get("version", "HTTP/1.1"), "headers": env["hdrs"], "body": env["body"],
                                "cfg": first["cfg"], "script": first["script"], "sign": "none", "leak": leak}) + "\n")
        else:
            c = {k: v for k, v in first.items() if k not in ("res", "out", "kind", "code", "status", "msg")}
            f.write(json.dumps(c) + "\n")
    tr = vp.hrun(ctx, cases, "replay")
    module = rec["why"].get("module", "Trace_Fn")
    group = "begin" if first.get("ev") == "Begin" else 1
    vp.validate(ctx, module, tr, "replay", group=group)
    for kid, cnt in ctx.known.items():
        if not kid.startswith("_sample_"):
            vp.log("KNOWN-FINDING: property=%s %s" % (pid, kid))
    import shutil
    shutil.rmtree(ctx.dir, ignore_errors=True)
    return 1 if ctx.violations else 0
