"""bin/check <pid> --replay <file>: re-execute the recorded case against the current /repo tree and
re-validate the fresh trace with TLC. Exit 1 (with a VIOLATION line) iff it is still rejected."""
import json, os
import vp


def run(pid, path, seed):
    rec = json.load(open(path))
    ctx = vp.Ctx(pid, "quick", seed)
    vp.build_harness()
    evs = rec["events"]
    d = ctx.sub("replay")
    cases = os.path.join(d, "cases.ndjson")
    first = evs[0]
    with open(cases, "w") as f:
        if first.get("ev") == "Begin":
            f.write(json.dumps(first["case"]) + "\n")
        else:
            c = {k: v for k, v in first.items() if k not in ("res", "out", "kind", "code", "status", "msg")}
            f.write(json.dumps(c) + "\n")
    tr = vp.hrun(ctx, cases, "replay")
    module = rec["why"].get("module", "Trace_Fn")
    group = "begin" if first.get("ev") == "Begin" else 1
    vp.validate(ctx, module, tr, "replay", group=group)
    for kid, cnt in ctx.known.items():
        if not kid.startswith("_sample_"):
            vp.log("KNOWN-FINDING: property=%s %s" % (pid, kid))
    import shutil
    shutil.rmtree(ctx.dir, ignore_errors=True)
    return 1 if ctx.violations else 0
