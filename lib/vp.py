"""Driver library for the /verif checks (stdlib only).

Pipeline steps, all deciding through TLC:
  mc()        model-check a specification module with a .cfg           (spec alone)
  tlc_gen()   let TLC enumerate cases and print them (campaign E)        (spec -> impl)
  hgen()      let the harness propose seeded random inputs (campaign R)
  hrun()      execute cases against the real library, recording a trace
  validate()  TLC trace validation of what the library did               (impl -> spec)

Exit codes of bin/check: 0 held, 1 violation (VIOLATION line + replay), 2 tool error.
"""
import json, os, re, shutil, subprocess, sys, time, concurrent.futures as cf

ROOT = os.path.dirname(os.path.dirname(os.path.abspath(__file__)))
SPEC = os.path.join(ROOT, "spec")
HARN = os.path.join(ROOT, "harness")
CONFORM = os.path.join(HARN, "target", "release", "conform")
WORK = os.path.join(ROOT, "work")
REPLAYS = os.path.join(ROOT, "work", "alt-replays") if os.environ.get("VERIF_REPO") else os.path.join(ROOT, "replays")
# (a run against a scratch copy of the repository - VERIF_REPO, used only by selftest/run_seeded.py --scratch - must not
#  overwrite the evidence and replays of /repo itself)
_ALT = bool(os.environ.get("VERIF_REPO"))
EVID = os.path.join(WORK, "alt-evidence") if _ALT else os.path.join(ROOT, "evidence")
NCPU = os.cpu_count() or 4
PAR = max(2, min(12, NCPU - 2))          # parallel TLC JVMs for trace validation
MAXREPLAYS = 12
CHUNK = 4000                              # trace events per TLC JVM run


class ToolError(Exception):
    pass


def log(*a):
    print(*a, flush=True)


def sh(cmd, cwd=None, env=None, timeout=None, out=None):
    e = dict(os.environ)
    if env:
        e.update(env)
    try:
        if out:
            with open(out, "wb") as f:
                p = subprocess.run(cmd, cwd=cwd, env=e, stdout=f, stderr=subprocess.STDOUT, timeout=timeout)
            return p.returncode, ""
        p = subprocess.run(cmd, cwd=cwd, env=e, stdout=subprocess.PIPE, stderr=subprocess.STDOUT, timeout=timeout)
        return p.returncode, p.stdout.decode("utf-8", "replace")
    except subprocess.TimeoutExpired:
        raise ToolError("timeout: " + " ".join(cmd[:6]))


# --------------------------------------------------------------------------- context

class Ctx:
    def __init__(self, pid, tier, seed):
        self.pid, self.tier, self.seed = pid, tier, seed
        self.t0 = time.time()
        self.dir = os.path.join(WORK, "%s-%s-%d" % (pid, tier, os.getpid()))
        shutil.rmtree(self.dir, ignore_errors=True)
        os.makedirs(self.dir)
        os.makedirs(REPLAYS, exist_ok=True)
        os.makedirs(EVID, exist_ok=True)
        self.states = 0
        self.transitions = 0
        self.traces = 0          # implementation executions whose trace TLC accepted
        self.evaluations = 0
        self.distinct = set()
        self.samples = []
        self.violations = []     # (replay path, text)
        self.known = {}          # finding id -> count
        self.notes = []
        self.mc_runs = []
        self.campaigns = []
        self.exhaustive = True
        self.n = 0
        self.known_db = load_known()
        self.actions = {}        # trace event x outcome -> count (which spec actions the implementation exercised)

    @property
    def quick(self):
        return self.tier == "quick"

    def sub(self, name):
        self.n += 1
        d = os.path.join(self.dir, "%02d-%s" % (self.n, name))
        os.makedirs(d, exist_ok=True)
        return d

    def violation(self, case, why):
        k = len(self.violations) + 1
        path = os.path.join(REPLAYS, "%s-%s-%d.json" % (self.pid, self.tier, min(k, MAXREPLAYS)))
        if k <= MAXREPLAYS:
            with open(path, "w") as f:
                json.dump({"property": self.pid, "seed": self.seed, "tier": self.tier, "why": why, "events": case}, f)
            log("VIOLATION property=%s replay=%s" % (self.pid, path))
            log("  why: %s" % str(why)[:600])
        elif k == MAXREPLAYS + 1:
            log("  (further violations are counted but not written out)")
        self.violations.append((path, why))


def load_known():
    p = os.path.join(ROOT, "known_findings.json")
    if not os.path.exists(p):
        return {"open": [], "fixed": []}
    return json.load(open(p))


def build_harness():
    """Build the harness against /repo's working tree. (For experiments only - e.g. trying a seeded change without
    touching /repo - VERIF_REPO=<dir> builds a private copy of the harness against that tree instead; the registered
    checks never set it.)"""
    global HARN, CONFORM
    t = time.time()
    alt = os.environ.get("VERIF_REPO")
    if alt:
        # one private harness copy per scratch tree, so that two scratch runs (seeded / benign) can go on side by side
        h2 = os.path.join(WORK, "harness-alt-" + re.sub(r"[^A-Za-z0-9]+", "_", alt).strip("_"))
        os.makedirs(h2, exist_ok=True)
        for name in ("src", ".cargo"):
            shutil.rmtree(os.path.join(h2, name), ignore_errors=True)
            shutil.copytree(os.path.join(HARN, name), os.path.join(h2, name))
        shutil.copy(os.path.join(HARN, "Cargo.lock"), h2)
        toml = open(os.path.join(HARN, "Cargo.toml")).read().replace('path = "/repo"', 'path = "%s"' % alt)
        open(os.path.join(h2, "Cargo.toml"), "w").write(toml)
        HARN = h2
        CONFORM = os.path.join(h2, "target", "release", "conform")
        import props
        props.CONFORM = CONFORM
    rc, out = sh(["cargo", "build", "--release", "--offline"], cwd=HARN, timeout=1500,
                 env={"CARGO_NET_OFFLINE": "true", "RUST_BACKTRACE": "0"})
    if rc != 0:
        sys.stdout.write(out[-4000:])
        raise ToolError("harness build failed (does /repo still compile?)")
    rc, out = sh([CONFORM, "selftest"])
    if rc != 0:
        raise ToolError("harness selftest failed: " + out)
    return time.time() - t


# --------------------------------------------------------------------------- TLC

JOPTS = "-Xss1g -XX:+UseParallelGC"


def _tlc(module, cfg_path, metadir, out_path, workers, env=None, jopts="", timeout=3600, extra=None):
    e = {"JAVA_TOOL_OPTIONS": (JOPTS + " " + jopts).strip(), "LOGICAL": os.path.join(SPEC, "empty.ndjson"),
         "WIRES": os.path.join(SPEC, "empty.ndjson"), "KF": "none"}
    if env:
        e.update(env)
    cmd = ["tlc", "-workers", str(workers), "-metadir", metadir, "-cleanup", "-noGenerateSpecTE",
           "-config", cfg_path] + (extra or []) + [module + ".tla"]
    rc, _ = sh(cmd, cwd=SPEC, env=e, timeout=timeout, out=out_path)
    shutil.rmtree(metadir, ignore_errors=True)
    return rc


RE_STATES = re.compile(r"^(\d+) states generated, (\d+) distinct states found", re.M)


def tlc_stats(text):
    m = None
    for m in RE_STATES.finditer(text):
        pass
    if not m:
        return 0, 0
    return int(m.group(2)), int(m.group(1))


def write_cfg(path, lines):
    with open(path, "w") as f:
        f.write("\n".join(lines) + "\n")


def mc(ctx, module, cfg, expect_violation=None, workers=None, timeout=3600, coverage=False, label=None):
    """Model-check spec/<module>.tla with spec/<cfg>. expect_violation: name of the invariant /
    property that MUST be reported violated (negative control)."""
    if isinstance(cfg, (list, tuple)):
        d = ctx.sub("mc-" + (label or module))
        cfg_path = os.path.join(d, "mc.cfg")
        write_cfg(cfg_path, cfg)
        cfg = label or "inline"
    else:
        d = ctx.sub("mc-" + (label or cfg.replace(".cfg", "")))
        cfg_path = os.path.join(SPEC, cfg)
    out = os.path.join(d, "tlc.out")
    extra = ["-coverage", "1"] if coverage else []
    t = time.time()
    rc = _tlc(module, cfg_path, os.path.join(d, "md"), out, workers or min(NCPU, 12),
              timeout=timeout, extra=extra)
    text = open(out, errors="replace").read()
    distinct, generated = tlc_stats(text)
    rec = {"module": module, "cfg": cfg, "distinct_states": distinct, "states_generated": generated,
           "wall_s": round(time.time() - t, 1)}
    if expect_violation:
        ok = ("is violated" in text or "was violated" in text) and expect_violation in text
        rec["negative_control"] = expect_violation
        rec["violated_as_required"] = ok
        ctx.mc_runs.append(rec)
        if not ok:
            sys.stdout.write(text[-3000:])
            raise ToolError("negative control %s/%s did not fail on %s" % (module, cfg, expect_violation))
        return rec
    ok = "Model checking completed. No error has been found." in text
    ctx.mc_runs.append(rec)
    ctx.states += distinct
    ctx.transitions += generated
    if not ok:
        sys.stdout.write(text[-6000:])
        raise ToolError("model checking of %s with %s failed (specification error)" % (module, cfg))
    if coverage:
        rec["uncovered_actions"] = uncovered_actions(text)
    log("  mc %-22s %-28s %9d distinct states  %6.1fs" % (module, cfg, distinct, time.time() - t))
    return rec


RE_COV = re.compile(r"^<(\w+) line .*?>: (\d+):(\d+)", re.M)


def uncovered_actions(text):
    bad = []
    for m in RE_COV.finditer(text):
        if m.group(1) not in ("Init",) and int(m.group(3)) == 0:
            bad.append(m.group(1))
    return sorted(set(bad))


def apalache(ctx, module, inv, cinit="ConstInit", timeout=600):
    """Unbounded-integer lemma by Apalache (SMT). Load-bearing only as an extra: a reported counterexample is a
    specification error (exit 2); if the tool is unavailable or times out the lemma is recorded as not discharged."""
    d = ctx.sub("apalache-" + module)
    t = time.time()
    try:
        rc, out = sh(["apalache-mc", "check", "--cinit=" + cinit, "--inv=" + inv, "--length=0",
                      "--out-dir=" + d, os.path.join(SPEC, module + ".tla")], cwd=d, timeout=timeout)
    except (ToolError, FileNotFoundError) as e:
        ctx.notes.append("apalache %s!%s not discharged: %s" % (module, inv, e))
        return False
    rec = {"tool": "apalache", "module": module, "invariant": inv, "wall_s": round(time.time() - t, 1),
           "outcome": "NoError" if "The outcome is: NoError" in out else "other"}
    ctx.mc_runs.append(rec)
    if "The outcome is: Error" in out or "violat" in out.lower():
        sys.stdout.write(out[-2000:])
        raise ToolError("Apalache found a counterexample to %s!%s" % (module, inv))
    if rec["outcome"] != "NoError":
        ctx.notes.append("apalache %s!%s not discharged (rc=%s)" % (module, inv, rc))
        return False
    log("  apalache %-18s %-24s NoError  %6.1fs" % (module, inv, time.time() - t))
    return True


def tlc_gen(ctx, module, consts, label, workers=None, env=None, invariant="Emit", timeout=3600):
    """Run a Gen_* module; returns path of cases.ndjson and count."""
    d = ctx.sub("gen-" + label)
    cfg = os.path.join(d, "gen.cfg")
    lines = ["SPECIFICATION Spec", "INVARIANT " + invariant, "CHECK_DEADLOCK FALSE"]
    for k, v in consts.items():
        lines.append("CONSTANT %s = %s" % (k, json.dumps(v) if isinstance(v, str) else v))
    write_cfg(cfg, lines)
    out = os.path.join(d, "tlc.out")
    t = time.time()
    rc = _tlc(module, cfg, os.path.join(d, "md"), out, workers or min(NCPU, 12), env=env, timeout=timeout)
    cases = os.path.join(d, "cases.ndjson")
    n = 0
    tail = []
    with open(out, errors="replace") as f, open(cases, "w") as w:
        for line in f:
            if line.startswith('"{'):
                w.write(json.loads(line) + "\n")
                n += 1
            else:
                tail.append(line)
                if len(tail) > 60:
                    tail.pop(0)
    text = "".join(tail)
    if "Model checking completed. No error has been found." not in text:
        sys.stdout.write(text[-4000:])
        raise ToolError("case generation %s %s failed" % (module, label))
    distinct, generated = tlc_stats(text)
    ctx.states += distinct
    ctx.transitions += generated
    os.remove(out)
    log("  gen %-20s %-18s %8d cases  %6.1fs" % (module, label, n, time.time() - t))
    ctx.campaigns.append({"campaign": "E", "label": label, "cases": n, "tlc_distinct_states": distinct,
                          "exhaustive": True})
    return cases, n


def hgen(ctx, family, n, label=None):
    d = ctx.sub("rgen-" + (label or family))
    cases = os.path.join(d, "cases.ndjson")
    rc, out = sh([CONFORM, "gen", family, str(ctx.seed), str(n), cases], timeout=600)
    if rc != 0:
        raise ToolError("harness gen failed: " + out[-500:])
    ctx.exhaustive = False
    ctx.campaigns.append({"campaign": "R", "label": label or family, "cases": n, "seed": ctx.seed})
    return cases, n


def hrun(ctx, cases, label, env=None):
    d = os.path.dirname(cases)
    trace = os.path.join(d, "trace.ndjson")
    t = time.time()
    e = {"RUST_BACKTRACE": "0"}
    if env:
        e.update(env)
    rc, out = sh([CONFORM, "run", cases, trace], timeout=3600, env=e)
    if rc != 0:
        # the harness process died: abnormal termination is data (C08) but cannot be attributed here
        raise ToolError("harness run failed rc=%s: %s" % (rc, out[-800:]))
    log("  run %-20s %s  %6.1fs" % (label, out.strip().splitlines()[-1] if out.strip() else "", time.time() - t))
    return trace


RE_MIS = re.compile(r'^<<"MISMATCH", (\d+), (.*)>>\s*$')
RE_KNOWN = re.compile(r'^<<"KNOWN", "(\w+)", (\d+)>>\s*$')
RE_STATS = re.compile(r'^<<"STATS", (\d+), (\d+), (\d+), (\d+)>>')


def _validate_chunk(args):
    module, chunk_path, d, idx, jopts, kf = args
    cfg = os.path.join(SPEC, module + ".cfg")
    out = os.path.join(d, "val-%04d.out" % idx)
    rc = _tlc(module, cfg, os.path.join(d, "md-%04d" % idx), out, 1, env={"TRACE": chunk_path, "KF": kf},
              jopts="-Xmx3g -Dtlc2.tool.queue.IStateQueue=StateDeque " + jopts, timeout=3600)
    text = open(out, errors="replace").read()
    mism, known, stats = [], [], None
    for line in text.splitlines():
        m = RE_MIS.match(line)
        if m:
            mism.append((int(m.group(1)), m.group(2)))
            continue
        m = RE_KNOWN.match(line)
        if m:
            known.append((m.group(1), int(m.group(2))))
            continue
        m = RE_STATS.match(line)
        if m:
            stats = tuple(int(x) for x in m.groups())
    distinct, generated = tlc_stats(text)
    accepted = "Model checking completed. No error has been found." in text
    post_failed = "Postcondition" in text and "is false" in text
    toolerr = None
    if stats is None or not (accepted or post_failed):
        toolerr = text[-3000:]
    else:
        os.remove(out)
    return idx, mism, known, stats, distinct, generated, toolerr


def validate(ctx, module, trace, label, key_fields=None, group=1, jopts="", sample=3, distinct_key=None, kf="none",
             chunk=None):
    """TLC trace validation. `group`: events per case are contiguous; chunks are cut only at
    lines whose 'ev' is 'Begin' when group='begin'."""
    d = os.path.dirname(trace)
    lines = [x for x in open(trace).read().split("\n") if x]
    if not lines:
        raise ToolError("empty trace " + trace)
    # cut into chunks
    chunks, cur = [], []
    prev_key = None
    for ln in lines:
        if group == "key":
            k = json.loads(ln).get("id")
            can_cut = k != prev_key
            prev_key = k
        else:
            can_cut = group == 1 or is_begin(ln)
        if len(cur) >= (chunk or CHUNK) and can_cut:
            chunks.append(cur)
            cur = []
        cur.append(ln)
    if cur:
        chunks.append(cur)
    jobs, offs, off = [], [], 0
    for i, ch in enumerate(chunks):
        p = os.path.join(d, "chunk-%04d.ndjson" % i)
        with open(p, "w") as f:
            f.write("\n".join(ch) + "\n")
        jobs.append((module, p, d, i, jopts, kf))
        offs.append(off)
        off += len(ch)
    t = time.time()
    res = []
    with cf.ThreadPoolExecutor(max_workers=PAR) as ex:
        for r in ex.map(_validate_chunk, jobs):
            res.append(r)
    nm = nk = 0
    rejected = []      # (events of the case, info)
    for idx, mism, known, stats, distinct, generated, toolerr in res:
        if toolerr:
            sys.stdout.write(toolerr)
            raise ToolError("trace validation (%s, chunk %d) did not run to completion" % (module, idx))
        ctx.states += distinct
        ctx.transitions += generated
        if stats[0] != len(chunks[idx]):
            raise ToolError("trace validation consumed %d of %d lines" % (stats[0], len(chunks[idx])))
        seen_cases = set()
        for (l, exp) in mism:
            ev = case_events(chunks[idx], l - 1, group)
            key = json.dumps(ev[0], sort_keys=True)[:4000]
            if key in seen_cases:
                continue
            seen_cases.add(key)
            rejected.append((ev, {"module": module, "line": offs[idx] + l, "spec_expected": exp[:2000]}))
        for (kid, l) in known:
            ev = case_events(chunks[idx], l - 1, group)
            nk += note_known(ctx, kid, ev, {"module": module, "line": offs[idx] + l})
        os.remove(jobs[idx][1])
    # second pass (whole-request traces): is a rejected case exactly a listed known finding? The case is
    # re-validated with the finding's deviant reading enabled where its matcher (in the spec) applies.
    if rejected and kf == "none" and group == "begin":
        for kid in sorted({o["id"] for o in ctx.known_db["open"]}):
            still = []
            p2 = os.path.join(d, "kf-%s.ndjson" % kid)
            with open(p2, "w") as f:
                for ev, info in rejected:
                    f.write("\n".join(json.dumps(e) for e in ev) + "\n")
            r2 = _validate_chunk((module, p2, d, 9000, jopts, kid))
            if r2[6]:
                sys.stdout.write(r2[6])
                raise ToolError("known-finding pass did not run to completion")
            bad_lines = {l for (l, _) in r2[1]}
            pos = 1
            for ev, info in rejected:
                rng = range(pos, pos + len(ev))
                pos += len(ev)
                if any(l in bad_lines for l in rng):
                    still.append((ev, info))
                else:
                    nk += note_known(ctx, kid, ev, info)
            rejected = still
            os.remove(p2)
    for ev, info in rejected:
        ctx.violation(ev, info)
        nm += 1
    ncases = count_cases(lines, group)
    ctx.traces += ncases - nm - nk
    ctx.evaluations += ncases
    if group == "begin":
        # which specification actions the implementation's traces exercised: event x outcome histogram
        for ln in lines:
            m = re.search(r'"ev":"([A-Za-z]+)"', ln)
            if not m:
                continue
            ev = m.group(1)
            if ev in ("PollReady", "PollFuture"):
                r = re.search(r'"ret":"([a-z_]+)"', ln)
                ev += ":" + (r.group(1) if r else "?")
            elif ev == "End":
                r = re.search(r'"kind":"([A-Za-z]*)".*"res":"([a-z]*)"', ln)
                ev += ":" + ((r.group(1) or r.group(2)) if r else "?")
            elif ev.startswith("Stage"):
                r = re.search(r'"res":"([a-z]*)"', ln)
                ev += ":" + (r.group(1) if r else "?")
            ctx.actions[ev] = ctx.actions.get(ev, 0) + 1
    if group == "begin":
        # distinct (case id, caller-visible outcome); the case id is in the Begin line, the outcome in the End line
        cur_id = None
        for ln in lines:
            if '"ev":"Begin"' in ln:
                m = re.search(r'"id":(\[[^\]]*\]|\d+)', ln)
                cur_id = m.group(1) if m else str(len(ctx.distinct))
            elif '"ev":"End"' in ln and cur_id is not None:
                m = re.search(r'"kind":"([A-Za-z]*)".*"res":"([a-z]*)"', ln)
                ctx.distinct.add((label.split("-")[0], cur_id, m.group(1) if m else "", m.group(2) if m else ""))
                cur_id = None
    elif distinct_key:
        for ln in lines:
            k = distinct_key(ln)
            if k is not None:
                ctx.distinct.add(k)
    step = max(1, len(lines) // sample)
    for ln in lines[::step][:sample]:
        try:
            ctx.samples.append(json.loads(ln))
        except Exception:
            pass
    log("  val %-20s %8d events %6d cases  mismatches=%d known=%d  %6.1fs" %
        (label, len(lines), ncases, nm, nk, time.time() - t))
    return nm


def note_known(ctx, kid, ev, info):
    """A deviation that matches a finding's matcher. Listed for this property: counted and reported as
    KNOWN-FINDING. Listed for another property only: it is that property's concern (reported there) and is
    not a violation of this one. Not listed at all: a violation."""
    listed = [o for o in ctx.known_db["open"] if o["id"] == kid]
    if any(ctx.pid in o["property"] for o in listed):
        ctx.known[kid] = ctx.known.get(kid, 0) + 1
        ctx.known.setdefault("_sample_" + kid, ev)
    elif listed:
        ctx.known_elsewhere = getattr(ctx, "known_elsewhere", 0) + 1
    else:
        ctx.violation(ev, dict(info, unlisted_finding=kid))
        return 0
    return 1


def is_begin(ln):
    return '"ev":"Begin"' in ln or '"ev":"Inadm"' in ln


def count_cases(lines, group):
    if group == 1 or group == "key":
        return len(lines)
    return sum(1 for ln in lines if is_begin(ln))


def case_events(chunk, i, group):
    """The events of the case containing chunk line i (0-based)."""
    if group == 1 or group == "key":
        return [json.loads(chunk[i])]
    a = i
    while a > 0 and not is_begin(chunk[a]):
        a -= 1
    b = i + 1
    while b < len(chunk) and not is_begin(chunk[b]):
        b += 1
    return [json.loads(x) for x in chunk[a:b]]


# --------------------------------------------------------------------------- evidence / exit

def finish(ctx, level="model_checking", rule="", assumptions=None, extra=None):
    for kid, cnt in sorted(ctx.known.items()):
        if kid.startswith("_sample_"):
            continue
        what = next((o["what"] for o in ctx.known_db["open"] if o["id"] == kid), kid)
        log("KNOWN-FINDING: property=%s %s: %s (%d observations this run)" % (ctx.pid, kid, what, cnt))
    cov = {
        "states": max(ctx.states, 0),
        "transitions": max(ctx.transitions, 0),
        "traces_validated_against_impl": ctx.traces,
        "evaluations": ctx.evaluations,
        "distinct_nontrivial": len(ctx.distinct),
        "rule": rule,
        "samples": ctx.samples[:8] if ctx.samples else [{"note": "no implementation traces in this run"}],
        "exhaustive": bool(ctx.exhaustive),
        "model_checking_runs": ctx.mc_runs,
        "campaigns": ctx.campaigns,
        "known_findings_observed": {k: v for k, v in ctx.known.items() if not k.startswith("_sample_")},
        "notes": ctx.notes,
        "spec_actions_exercised_by_impl_traces": dict(sorted(ctx.actions.items())),
    }
    if extra:
        cov.update(extra)
    ev = {
        "property_id": ctx.pid, "tier": ctx.tier, "seed": ctx.seed, "level": level, "coverage": cov,
        "assumptions": assumptions or [], "wall_s": round(time.time() - ctx.t0, 1),
        "violations": len(ctx.violations),
    }
    with open(os.path.join(EVID, ctx.pid + ".json"), "w") as f:
        json.dump(ev, f, indent=1)
    shutil.rmtree(ctx.dir, ignore_errors=True)
    log("%s %s: states=%d traces_validated=%d evaluations=%d violations=%d wall=%.1fs" %
        (ctx.pid, ctx.tier, ctx.states, ctx.traces, ctx.evaluations, len(ctx.violations), time.time() - ctx.t0))
    return 1 if ctx.violations else 0
