#!/usr/bin/env python3
"""Confirm each seeded change delivered under /tmp/seed/out/<id>/<v>/ against the CURRENT /repo HEAD in a scratch
worktree: (i) demo passes without the change, (ii) with the change the crate builds and the 72 unit tests pass,
(iii) the demo fails with the change. Keeps confirmed ones as /verif/seeded/<id>-<v>/ (patch.diff, demo.rs, notes.md,
meta.json). Scratch worktree is removed afterwards."""
REL = "--release" if __import__("os").environ.get("SEED_RELEASE") else ""
import json, os, shutil, subprocess, sys

OUT = os.environ.get("SEED_OUT", "/tmp/seed/out")
WT = os.environ.get("SEED_WT", "/tmp/seed/confirm_wt")
KEEP = "/verif/seeded"
ENV = dict(os.environ, RUSTC_BOOTSTRAP="1", CARGO_NET_OFFLINE="true", RUST_BACKTRACE="0")


def sh(cmd, cwd=None, timeout=1800):
    p = subprocess.run(cmd, cwd=cwd, shell=True, env=ENV, stdout=subprocess.PIPE, stderr=subprocess.STDOUT, timeout=timeout)
    return p.returncode, p.stdout.decode("utf-8", "replace")


def main():
    only = sys.argv[1:]
    subprocess.run("git -C /repo worktree remove --force %s" % WT, shell=True, stderr=subprocess.DEVNULL)
    rc, o = sh("git -C /repo worktree add --detach %s HEAD" % WT)
    assert rc == 0, o
    os.makedirs(KEEP, exist_ok=True)
    results = {}
    try:
        for pid in sorted(os.listdir(OUT)):
            for v in sorted(os.listdir(os.path.join(OUT, pid))):
                name = "%s-%s" % (pid, v)
                if only and name not in only and pid not in only:
                    continue
                d = os.path.join(OUT, pid, v)
                patch, demo = os.path.join(d, "patch.diff"), os.path.join(d, "demo.rs")
                if not (os.path.exists(patch) and os.path.exists(demo)):
                    results[name] = "incomplete delivery"
                    continue
                sh("git reset --hard -q HEAD && git clean -fdq -e target", cwd=WT)
                os.makedirs(os.path.join(WT, "tests"), exist_ok=True)
                shutil.copy(demo, os.path.join(WT, "tests", "seed_demo.rs"))
                feat = "--features unstable" if "unstable" in open(demo).read() or "unstable" in open(os.path.join(d, "notes.md")).read().lower().split("no `unstable`")[0][-400:] else ""
                # (i) demo on unchanged code
                rc1, o1 = sh("cargo test --offline %s %s --test seed_demo 2>&1 | tail -15" % (REL, feat), cwd=WT)
                if "test result: ok" not in o1 and feat == "":
                    feat = "--features unstable"
                    rc1, o1 = sh("cargo test --offline %s %s --test seed_demo 2>&1 | tail -15" % (REL, feat), cwd=WT)
                pass_clean = "test result: ok" in o1 and "FAILED" not in o1
                # apply
                rc, oa = sh("git apply %s || git apply -3 %s" % (patch, patch), cwd=WT)
                applied = rc == 0
                rc2, o2 = sh("cargo test --offline --lib 2>&1 | tail -5", cwd=WT) if applied else (1, "")
                suite_ok = "72 passed; 0 failed" in o2
                rc3, o3 = sh("cargo test --offline %s %s --test seed_demo 2>&1 | tail -25" % (REL, feat), cwd=WT) if applied else (1, "")
                demo_fails = applied and ("FAILED" in o3 or "panicked" in o3 or "error" in o3.lower()) and "test result: ok" not in o3.split("Running")[-1]
                ok = pass_clean and applied and suite_ok and demo_fails
                results[name] = {"demo_passes_unchanged": pass_clean, "applies": applied, "suite_72_pass": suite_ok,
                                 "demo_fails_with_change": demo_fails, "features": feat, "confirmed": ok}
                print(name, results[name], flush=True)
                if ok:
                    k = os.path.join(KEEP, name)
                    os.makedirs(k, exist_ok=True)
                    # store the patch as it applies to the current HEAD
                    rc, diff = sh("git diff -- src", cwd=WT)
                    open(os.path.join(k, "patch.diff"), "w").write(diff)
                    shutil.copy(demo, os.path.join(k, "demo.rs"))
                    shutil.copy(os.path.join(d, "notes.md"), os.path.join(k, "notes.md"))
                    meta = {"id": name, "property": pid, "base_commit": subprocess.check_output("git -C /repo rev-parse HEAD", shell=True).decode().strip(),
                            "confirmed": results[name],
                            "ran": ["cargo test --offline %s %s --test seed_demo (unchanged: pass)" % (REL, feat),
                                    "git apply patch.diff; cargo test --offline --lib (72 passed)",
                                    "cargo test --offline %s %s --test seed_demo (with change: fails)" % (REL, feat)]}
                    json.dump(meta, open(os.path.join(k, "meta.json"), "w"), indent=1)
                else:
                    print("  -- unchanged demo tail:", o1[-300:].replace("\n", " | "))
                    print("  -- suite tail:", o2[-200:].replace("\n", " | "))
                    print("  -- demo-with-change tail:", o3[-300:].replace("\n", " | "))
    finally:
        subprocess.run("git -C /repo worktree remove --force %s" % WT, shell=True)
    json.dump(results, open(os.path.join(os.path.dirname(OUT), "confirm_results.json"), "w"), indent=1)


if __name__ == "__main__":
    main()
