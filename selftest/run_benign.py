#!/usr/bin/env python3
"""No-false-alarm side of the self-test: behaviour-preserving maintenance patches (/verif/benign/<name>/patch.diff,
written by sub-agents that were given the property statements and asked for invasive but correct refactors) are applied
to a scratch worktree of /repo and the registered quick checks are run against it (VERIF_REPO). Every check must exit 0.
A non-zero exit is examined by hand: either the patch does break a property (then it is not benign and is dropped), or
the check demanded more than the property states (then the check is corrected).
Usage: run_benign.py [--props C01,C02,...] [name ...]    Results: /verif/benign/RESULTS.json"""
import json, os, subprocess, sys, time

BEN = "/verif/benign"
ALL = ["C%02d" % i for i in range(1, 20)]
# --auto: the checks whose oracles look at the code a patch of that area touches (all whole-request oracles share
# Trace_Req, so C02 - the broadest corpus - stands for them; the function-level ones are per area)
AUTO = {"A": ["C02", "C13", "C15", "C12", "C08", "C09", "C10", "C11"],
        "B": ["C02", "C13", "C14", "C15", "C17", "C18", "C07"],
        "C": ["C02", "C13", "C06", "C16", "C08", "C17"]}


def sh(cmd, timeout=7200):
    p = subprocess.run(cmd, shell=True, stdout=subprocess.PIPE, stderr=subprocess.STDOUT, timeout=timeout)
    return p.returncode, p.stdout.decode("utf-8", "replace")


def main():
    args = sys.argv[1:]
    props = ALL
    auto = False
    if args and args[0] == "--props":
        props = args[1].split(",")
        args = args[2:]
    elif args and args[0] == "--auto":
        auto = True
        args = args[1:]
    names = args or sorted(d for d in os.listdir(BEN) if os.path.isdir(os.path.join(BEN, d)))
    resp = os.path.join(BEN, "RESULTS.json")
    results = json.load(open(resp)) if os.path.exists(resp) else {}
    wt = "/tmp/benignrun/wt"
    sh("git -C /repo worktree remove --force %s" % wt)
    rc, o = sh("mkdir -p /tmp/benignrun && git -C /repo worktree add --detach %s HEAD" % wt)
    assert rc == 0, o
    try:
        for name in names:
            d = os.path.join(BEN, name)
            sh("git -C %s reset -q --hard HEAD" % wt)
            rc, o = sh("git -C %s apply %s/patch.diff" % (wt, d))
            if rc != 0:
                results[name] = {"error": "patch does not apply: " + o[-300:]}
                continue
            rc, o = sh("cd %s && CARGO_NET_OFFLINE=true cargo test --offline --lib 2>&1 | tail -3" % wt)
            res = results.get(name, {})
            res["suite"] = o.strip().splitlines()[-1] if o.strip() else ""
            for p in (AUTO.get(name[0], ALL) if auto else props):
                if p in res and isinstance(res[p], dict) and res[p].get("exit") == 0:
                    continue
                t = time.time()
                rc, o = sh("cd /verif && VERIF_REPO=%s bin/check %s quick" % (wt, p))
                viol = [l for l in o.splitlines() if l.startswith("VIOLATION")]
                res[p] = {"exit": rc, "violations": len(viol), "wall_s": round(time.time() - t, 1),
                          "tail": "" if rc == 0 else o[-1500:]}
                print(name, p, "exit", rc, "violations", len(viol), "%.0fs" % (time.time() - t), flush=True)
                results[name] = res
                json.dump(results, open(resp, "w"), indent=1)
    finally:
        sh("git -C /repo worktree remove --force %s" % wt)
    return 0


if __name__ == "__main__":
    sys.exit(main())
