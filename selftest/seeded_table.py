#!/usr/bin/env python3
"""Enrich /verif/seeded/*/meta.json with what each change needs to manifest (from the author's notes) and with
which registered checks caught it (RESULTS.json); print the markdown table used in DESIGN.md section 9."""
import json, os, re
SEED = "/verif/seeded"
res = json.load(open(os.path.join(SEED, "RESULTS.json")))
rows = []
for name in sorted(d for d in os.listdir(SEED) if os.path.isdir(os.path.join(SEED, d))):
    d = os.path.join(SEED, name)
    meta = json.load(open(os.path.join(d, "meta.json")))
    notes = open(os.path.join(d, "notes.md")).read()
    m = re.search(r"(?im)^[-*# ]*\**\s*(trigger|what is needed|needed to manifest|needs)[^\n:]*[:.]\**\s*(.+)$", notes)
    needs = (m.group(2) if m else notes.strip().splitlines()[0]).strip()
    meta["breaks"] = meta["property"]
    meta["needs_to_manifest"] = needs[:400]
    r = res.get(name, {})
    caught = sorted(p for p, v in r.items() if isinstance(v, dict) and v.get("exit") == 1)
    missed = sorted(p for p, v in r.items() if isinstance(v, dict) and v.get("exit") == 0)
    meta["checks_run"] = {p: {"exit": v.get("exit"), "violations": v.get("violations")} for p, v in r.items() if isinstance(v, dict)}
    meta["caught_by"] = caught
    json.dump(meta, open(os.path.join(d, "meta.json"), "w"), indent=1)
    first = notes.strip().splitlines()[0].lstrip("# ").strip()
    rows.append((name, first[:110], ", ".join(caught) or "—", ", ".join(missed) or ""))
print("| change | what it is | caught by (quick) | not caught by |")
print("|---|---|---|---|")
for r in rows:
    print("| %s | %s | %s | %s |" % r)
