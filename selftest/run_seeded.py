#!/usr/bin/env python3
"""Run the registered quick checks against each kept seeded change (/verif/seeded/<name>/patch.diff):
apply to /repo, run bin/check <property> quick (and any extra properties given in meta.json 'also'), undo.
Usage: run_seeded.py [name ...]   Results: /verif/seeded/RESULTS.json"""
import json, os, subprocess, sys, time

SEED = "/verif/seeded"


def sh(cmd, timeout=3600):
    p = subprocess.run(cmd, shell=True, stdout=subprocess.PIPE, stderr=subprocess.STDOUT, timeout=timeout)
    return p.returncode, p.stdout.decode("utf-8", "replace")


def main_scratch(names):
    """--scratch: do not touch /repo; apply each change in a scratch worktree and point the checks at it
    (VERIF_REPO). Used while long runs are using /repo."""
    resp = os.path.join(SEED, "RESULTS.json")
    results = json.load(open(resp)) if os.path.exists(resp) else {}
    wt = "/tmp/seedrun/wt"
    sh("git -C /repo worktree remove --force %s" % wt)
    rc, o = sh("mkdir -p /tmp/seedrun && git -C /repo worktree add --detach %s HEAD" % wt)
    assert rc == 0, o
    try:
        for name in names:
            d = os.path.join(SEED, name)
            meta = json.load(open(os.path.join(d, "meta.json")))
            props = [meta["property"]] + meta.get("also", [])
            sh("git -C %s reset -q --hard HEAD" % wt)
            rc, o = sh("git -C %s apply %s/patch.diff || git -C %s apply -3 %s/patch.diff" % (wt, d, wt, d))
            if rc != 0:
                results[name] = {"error": "patch does not apply: " + o[-300:]}
                continue
            res = {}
            for p in props:
                t = time.time()
                rc, o = sh("cd /verif && VERIF_REPO=%s bin/check %s quick" % (wt, p))
                viol = [l for l in o.splitlines() if l.startswith("VIOLATION")]
                res[p] = {"exit": rc, "violations": len(viol), "first": (viol[0] if viol else ""),
                          "wall_s": round(time.time() - t, 1), "tail": "" if rc == 1 else o[-600:]}
                print(name, p, "exit", rc, "violations", len(viol), "%.0fs" % (time.time() - t), flush=True)
            results[name] = res
            json.dump(results, open(resp, "w"), indent=1)
    finally:
        sh("git -C /repo worktree remove --force %s" % wt)
    return 0


def main():
    if len(sys.argv) > 1 and sys.argv[1] == "--scratch":
        names = sys.argv[2:] or sorted(d for d in os.listdir(SEED) if os.path.isdir(os.path.join(SEED, d)))
        return main_scratch(names)
    names = sys.argv[1:] or sorted(d for d in os.listdir(SEED) if os.path.isdir(os.path.join(SEED, d)))
    resp = os.path.join(SEED, "RESULTS.json")
    results = json.load(open(resp)) if os.path.exists(resp) else {}
    rc, o = sh("git -C /repo status --porcelain")
    if o.strip():
        print("refusing: /repo working tree is not clean:\n" + o)
        return 2
    for name in names:
        d = os.path.join(SEED, name)
        meta = json.load(open(os.path.join(d, "meta.json")))
        props = [meta["property"]] + meta.get("also", [])
        rc, o = sh("git -C /repo apply %s/patch.diff || git -C /repo apply -3 %s/patch.diff" % (d, d))
        if rc != 0:
            results[name] = {"error": "patch does not apply: " + o[-300:]}
            sh("git -C /repo reset -q --hard HEAD")
            continue
        try:
            res = {}
            for p in props:
                t = time.time()
                rc, o = sh("cd /verif && bin/check %s quick" % p)
                viol = [l for l in o.splitlines() if l.startswith("VIOLATION")]
                res[p] = {"exit": rc, "violations": len(viol), "first": (viol[0] if viol else ""),
                          "wall_s": round(time.time() - t, 1),
                          "tail": "" if rc == 1 else o[-600:]}
                print(name, p, "exit", rc, "violations", len(viol), "%.0fs" % (time.time() - t), flush=True)
            results[name] = res
        finally:
            sh("git -C /repo reset -q --hard HEAD")
            rc, o = sh("git -C /repo status --porcelain")
            assert not o.strip(), o
        json.dump(results, open(resp, "w"), indent=1)
    return 0


if __name__ == "__main__":
    sys.exit(main())
